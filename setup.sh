#!/bin/sh
# Offline setup: nothing to build. Verifies the interpreter and that django_components
# resolves to /repo/src. (icontract/deal are optional and not required by any check.)
set -e
cd "$(dirname "$0")"
/venv/bin/python - <<'PY'
import sys, os
import django, django_components
p = os.path.realpath(django_components.__file__)
assert p.startswith("/repo/src/"), p
print("setup ok: python", sys.version.split()[0], "django", django.get_version(), "django_components from", p)
PY
mkdir -p evidence replay
