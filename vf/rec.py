"""Per-shard recorder: what the monitors observed, in a form the driver can fold."""
import hashlib
import json
import time


def digest64(obj) -> int:
    if not isinstance(obj, (bytes, str)):
        obj = json.dumps(obj, sort_keys=True, default=repr, ensure_ascii=False)
    if isinstance(obj, str):
        obj = obj.encode("utf-8", "surrogatepass")
    return int.from_bytes(hashlib.blake2b(obj, digest_size=8).digest(), "big")


class Recorder:
    DIGEST_CAP = 100_000  # per shard; beyond it distinct counting is conservative (under-counts)
    MAX_VIOLATIONS = 20
    MAX_SAMPLES = 4

    def __init__(self, spec):
        self.spec = spec
        self.known_ids = set(spec.get("known_ids", []))
        self.evaluations = 0
        self.nontrivial_evals = 0
        self.digests = set()
        self.digest_capped = False
        self.counters = {}
        self.samples = []
        self.violations = []
        self.violation_count = 0
        self.known = {}  # finding id -> {"hits": n, "example": case}
        self.inconclusive = {}  # reason -> n
        self.monitors = {}  # name -> observations (required monitors)
        self.exhaustive = None
        self.notes = []
        self.t0 = time.time()

    # -- cases ----------------------------------------------------------------------
    def case(self, key, nontrivial=True, n=1):
        """Count one executed case. ``key`` identifies it structurally (for distinct counting)."""
        self.evaluations += n
        if nontrivial:
            self.nontrivial_evals += n
            if len(self.digests) < self.DIGEST_CAP:
                self.digests.add(key if isinstance(key, int) else digest64(key))
            else:
                self.digest_capped = True

    def count(self, name, n=1):
        self.counters[name] = self.counters.get(name, 0) + n

    def maxi(self, name, v):
        if v > self.counters.get(name, 0):
            self.counters[name] = v

    def sample(self, obj, force=False):
        if force or len(self.samples) < self.MAX_SAMPLES:
            self.samples.append(obj)

    def want_sample(self):
        return len(self.samples) < self.MAX_SAMPLES

    # -- monitors -------------------------------------------------------------------
    def require(self, *names):
        for n in names:
            self.monitors.setdefault(n, 0)

    def observe(self, name, n=1):
        self.monitors[name] = self.monitors.get(name, 0) + n

    # -- verdicts -------------------------------------------------------------------
    def violation(self, klass, case, detail=None):
        """A refuting observation. ``case`` must be JSON-able and sufficient for replay()."""
        self.violation_count += 1
        self.count("violation:" + klass)
        if len(self.violations) < self.MAX_VIOLATIONS:
            self.violations.append({"class": klass, "case": case, "detail": detail or {}})

    def known_finding(self, fid, case=None, detail=None):
        """Returns True if ``fid`` is listed (then the observation is a known finding);
        False otherwise - the caller must then report a violation."""
        if fid not in self.known_ids:
            return False
        k = self.known.setdefault(fid, {"hits": 0, "example": None})
        k["hits"] += 1
        if k["example"] is None and case is not None:
            k["example"] = {"case": case, "detail": detail or {}}
        return True

    def report(self, klass, case, detail=None, known=None):
        """violation unless attributed (by the caller's defect model) to listed finding ``known``."""
        if known and self.known_finding(known, case, detail):
            return
        self.violation(klass, case, detail)

    def inconc(self, reason, n=1):
        self.inconclusive[reason] = self.inconclusive.get(reason, 0) + n

    def note(self, s):
        if len(self.notes) < 20:
            self.notes.append(s)

    # -- output ---------------------------------------------------------------------
    def dump(self, path):
        dpath = path + ".digests"
        with open(dpath, "wb") as f:
            for d in self.digests:
                f.write(d.to_bytes(8, "big"))
        out = {
            "shard": self.spec.get("name"),
            "evaluations": self.evaluations,
            "nontrivial_evals": self.nontrivial_evals,
            "digest_capped": self.digest_capped,
            "digests_file": dpath,
            "counters": self.counters,
            "samples": self.samples,
            "violations": self.violations,
            "violation_count": self.violation_count,
            "known": self.known,
            "inconclusive": self.inconclusive,
            "monitors": self.monitors,
            "exhaustive": self.exhaustive,
            "notes": self.notes,
            "wall_s": round(time.time() - self.t0, 3),
        }
        with open(path, "w") as f:
            json.dump(out, f, default=repr, ensure_ascii=False)
