"""Shared runner for E1 programs: builds the real classes, renders the page under a mode / variant,
normalises the output, runs the reference interpreter."""
import re

from vf.gen import program as pg
from vf.model import interp

RENDERED = re.compile(r"<!-- _RENDERED [^>]*?-->")
DJC_ID = re.compile(r' data-djc-id-(\w{6})(?:="")?')


class Divergence(BaseException):
    pass


class E1Env:
    def __init__(self, components=None):
        from vf import boot

        boot.boot(components=components)
        from django.template import Context, Template
        from django.test import override_settings

        import django_components.component as comp_mod
        from django_components import Component, registry

        self.Context, self.Template, self.override_settings = Context, Template, override_settings
        self.Component, self.registry = Component, registry
        self.n = 0
        self.inst_count = 0
        self.inst_limit = None
        orig = Component._render_impl
        env = self

        def counted(self_, *a, **k):
            env.inst_count += 1
            if env.inst_limit is not None and env.inst_count > env.inst_limit:
                raise Divergence(f"more than {env.inst_limit} component instantiations")
            return orig(self_, *a, **k)

        Component._render_impl = counted
        self.comp_mod = comp_mod

    def build(self, program, failpoints=None):
        self.n += 1
        return pg.Built(program, f"p{self.n}", failpoints=failpoints)

    def render(self, built, mode, variant="tag", page_ctx=None, limit=None, keep_ids=False, extra_settings=None):
        """-> ("ok", normalised html, raw html) | ("exc", class name, message)"""
        self.inst_count = 0
        self.inst_limit = limit
        comp = {"context_behavior": mode, "autodiscover": False}
        comp.update(extra_settings or {})
        src = built.page_src if variant != "dynamic" else built.dynamic_source()
        tmp = None
        if variant == "dynamic-all":
            # every component tag, in the page and in the class templates, written through the dynamic component
            self.n += 1
            tmp = pg.Built(built.program, f"p{self.n}", dynamic_all=True)
            src = tmp.page_src
        try:
            with self.override_settings(COMPONENTS=comp):
                ctx = self.Context(dict(page_ctx if page_ctx is not None else built.program.get("page_ctx", {})))
                raw = self.Template(src).render(ctx)
        except Divergence as e:
            return ("div", str(e), "")
        except Exception as e:  # noqa: BLE001
            return ("exc", type(e).__name__, str(e)[:400])
        finally:
            self.inst_limit = None
            if tmp is not None:
                tmp.dispose()
        return ("ok", raw if keep_ids else normalise(raw), raw)


def normalise(html):
    return DJC_ID.sub("", RENDERED.sub("", str(html)))


def reference(program, mode, switches=()):
    """-> ("ok", text, Interp) | ("exc", class name, why, Interp) | ("unspec", why)"""
    it = interp.Interp(program, mode, switches)
    it._page_level_provider_used = {}
    try:
        out = it.run()
    except interp.Expected as e:
        # The statement does not order the errors of independent components (the library renders component templates
        # in a deferred order): collect every error class some order could meet first; the check accepts any of them.
        it.error_kinds = {e.exc_class}
        it2 = interp.Interp(program, mode, switches)
        it2._page_level_provider_used = {}
        it2.collect_errors = True
        try:
            it2.run()
        except interp.Expected as e2:
            it2.errors.append((e2.exc_class, e2.why))
        except (interp.Unspecified, RecursionError):
            pass
        it.error_kinds |= {c for c, _ in it2.errors}
        return ("exc", e.exc_class, e.why, it)
    except interp.Unspecified as e:
        return ("unspec", str(e))
    return ("ok", "".join(out), it)
