"""Reference lexer for C09, written from the property statement (no Django import).

Rules: tokens are found like stock Django (leftmost ``{% .. %}``, ``{{ .. }}``, ``{# .. #}``,
shortest match, '.' matches newlines when multiline tags are on), except that a block tag that
contains a quote character ends at the first ``%}`` that is *outside* a quoted string
('..' or "..", backslash escapes the next character).  ``{% verbatim [name] %}`` turns
everything up to the matching ``{% endverbatim [name] %}`` into TEXT tokens (one per stock
token).  Each token: (type, contents, (start, end), lineno) with contents = span without
delimiters and outer whitespace (TEXT: the span itself), lineno = 1 + newlines before start.
"""

TEXT, VAR, BLOCK, COMMENT = "TEXT", "VAR", "BLOCK", "COMMENT"
OPEN = {"{%": ("%}", BLOCK), "{{": ("}}", VAR), "{#": ("#}", COMMENT)}


class Unterminated(Exception):
    pass


def _quote_aware_end(text, i):
    """text[i:i+2] == '{%'.  Returns end index (exclusive) of the tag."""
    n = len(text)
    k = i + 2
    while k < n:
        c = text[k]
        if c == "'" or c == '"':
            k += 1
            while True:
                if k >= n:
                    raise Unterminated(f"unterminated {c} string")
                d = text[k]
                if d == "\\" and k + 1 < n and text[k + 1] != "\n":
                    k += 2
                    continue
                if d == c:
                    k += 1
                    break
                k += 1
            continue
        if c == "%" and text[k + 1 : k + 2] == "}":
            return k + 2
        k += 1
    raise Unterminated("unterminated {% tag")


def lex(text, multiline=True, quote_aware=True):
    """Returns list of (type, contents, (start, end), lineno).

    quote_aware=False gives the stock-Django stream.
    """
    n = len(text)
    out = []
    pos = 0  # start of pending text
    i = 0
    verbatim = None

    def lineno(at):
        return 1 + text.count("\n", 0, at)

    def emit_text(a, b):
        if b > a:
            out.append((TEXT, text[a:b], (a, b), lineno(a)))

    while i < n - 1:
        two = text[i : i + 2]
        if two not in OPEN:
            i += 1
            continue
        close, typ = OPEN[two]
        j = text.find(close, i + 2)
        if j >= 0 and not multiline and "\n" in text[i + 2 : j]:
            # without DOTALL '.' cannot cross a newline: no match starting here
            j = -1
        if j < 0:
            i += 1
            continue
        end = j + 2
        inner = text[i + 2 : j]
        if verbatim is not None:
            # inside verbatim: everything is TEXT until the matching end tag
            if typ == BLOCK and inner.strip() == verbatim:
                emit_text(pos, i)
                out.append((BLOCK, inner.strip(), (i, end), lineno(i)))
                verbatim = None
            else:
                emit_text(pos, i)
                out.append((TEXT, text[i:end], (i, end), lineno(i)))
            pos = i = end
            continue
        if typ == BLOCK and quote_aware and ("'" in inner or '"' in inner):
            end = _quote_aware_end(text, i)
            inner = text[i + 2 : end - 2]
        emit_text(pos, i)
        contents = inner.strip()
        out.append((typ, contents, (i, end), lineno(i)))
        if typ == BLOCK and contents[:9] in ("verbatim", "verbatim "):
            verbatim = "end" + contents
        pos = i = end
    emit_text(pos, n)
    return out
