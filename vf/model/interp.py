"""E1 reference interpreter (no Django import): evaluates a component-program AST under the
*property statements'* rules and returns the expected observable.

Program = {"classes": {cname: {"template": nodes, "data": {var: value}, "inject": [[key, default|None]...],
                               "only_params": ...}}, "page": nodes, "page_ctx": {var: value}}

Node kinds (lists):
  ["text", tok]                              literal token, rendered as "[tok]"
  ["fp", tok, "filter"|"tag"]                same output, but produced by a harness filter / tag (a user-code point)
  ["elem", uid, children]                    <e{uid}>..</e{uid}>
  ["if", bool, then, else]
  ["for", var, items, body]                  items: list of values (literal string chars or a list variable)
  ["with", var, value, body]
  ["var", name]                              rendered as "[name=VALUE]"  (VALUE "" when unbound)
  ["slot", nameexpr, {"default":b,"required":b}, body, data{k:v}]
  ["comp", cname, {"only":b,"kwargs":{k:expr}}, body]     body: None | ["implicit", nodes] | ["fills", sites]
        site: ["fill", nameexpr, nodes, data_alias|None, default_alias|None] | ["if", bool, sites, sites] | ["for", var, items, sites]
              | ["text", tok]  (illegal: text beside fills)
  ["probe", slotname]                        [Y:name] / [N:name] from component_vars.is_filled
  ["dataref", alias, key]                    {{ alias.key }} -> "[alias.key=VALUE]"
  ["defaultref", alias]                      {{ alias }}  -> the slot's own default content
  ["provide", key, {k: expr}, body]
  ["idecho"]                                 "[I<instance no>]"
nameexpr / expr: ["lit", s] | ["var", name]
"""

ISOLATED, DJANGO = "isolated", "django"


class Expected(Exception):
    """The property says this render must raise."""

    def __init__(self, exc_class, why):
        super().__init__(why)
        self.exc_class, self.why = exc_class, why


class Unspecified(Exception):
    pass


class Inst:
    def __init__(self, no, cname, fills, parent):
        self.no, self.cname, self.fills, self.parent = no, cname, fills, parent
        self.default_slot = None
        self.roots = []
        self.injected = {}


class Closure:
    def __init__(self, body, lex_owner, def_env, between, data_alias=None, default_alias=None, site=None):
        self.body, self.lex_owner, self.def_env, self.between = body, lex_owner, def_env, between
        self.data_alias, self.default_alias, self.site = data_alias, default_alias, site


MISSING = object()


def lookup(env, name):
    for kind, site, vars_ in reversed(env):
        if kind.startswith("unspec"):
            if vars_ is None or name in vars_:
                raise Unspecified(f"read of '{name}' through a frame the statement does not order ({kind})")
            continue
        if name in vars_:
            return vars_[name], (kind, site)
    return MISSING, None


def escape_slot_name(name):
    return "".join(ch if (ch.isalnum() or ch == "_") else "_" for ch in name)


class Interp:
    MAX_STEPS = 150_000

    def __init__(self, program, mode, switches=()):
        self.p = program
        self.mode = mode
        self.sw = set(switches)
        self.instances = []
        self.classes_in_order = []
        self.reads = []  # (name, selected (kind, site) | None, candidates, in_fill)
        self.var_tokens = []  # one record per printed variable, in output order
        self.captured = []  # frames captured by the fills currently being rendered (between frames + loop copies)
        self.captured_lex = []  # parallel: was the capturing fill lexically scoped (isolated mode / `only`)?
        self.last_read = None
        self.in_defaultref = 0
        self.alias_stack = []  # alias bindings of the fills currently being rendered
        self.loop_stack = []  # sites of the {% for %} loops on the evaluation stack
        self.defaultref_envs = []  # environments of the {{ default-alias }} reads currently being expanded
        self.render_stack = []  # instances whose template is being evaluated (rendered structure)
        self.elem_roots = {}  # uid -> [instance numbers]
        self.elem_occ = []  # (uid, [instance numbers]) per rendered element, document order
        self.provider_count = 0
        self.collect_errors = False
        self.errors = []
        self.steps = 0
        self.fill_lexical = []
        self.events = {"slot_filled": 0, "slot_default": 0, "slot_in_default": 0, "slot_in_fill": 0, "fill_in_loop": 0, "dynamic_name": 0, "inject_hit": 0, "inject_default": 0, "max_depth": 0}

    # ------------------------------------------------------------------ entry
    def run(self):
        env = (("page", "P", dict(self.p.get("page_ctx", {}))),)
        out = self.eval(self.p["page"], env, None, {}, frozenset(), 0, False, ())
        return out

    # ------------------------------------------------------------------ helpers
    def resolve(self, expr, env, what, in_fill):
        if expr[0] == "lit":
            return expr[1]
        v, sel = lookup(env, expr[1])
        self.note_read(expr[1], sel, env, in_fill)
        return "" if v is MISSING else v

    def note_read(self, name, sel, env, in_fill):
        cands = [(k, s) for k, s, vs in env if vs is not None and name in vs]
        self.reads.append((name, sel, cands, in_fill))
        def base(kind):
            kind = kind.split(":")[-1]
            if kind.startswith("unspec-"):
                kind = kind[7:]
            return "for" if kind == "leak" else kind

        # (a `with` between tag and fill is re-wrapped as an "unspec-with" frame in a lexically scoped fill: it is the same
        # captured binding, recognised by kind and site)
        cap_sites = {(base(c[0]), c[1]) for c in self.captured}

        self.last_read = {
            "name": name,
            "sel": (base(sel[0]), sel[1]) if sel else None,
            "in_fill": in_fill,
            "via_defaultref": self.in_defaultref > 0,
            "captured_sites": [(base(c[0]), c[1]) for c in self.captured],
            "fill_aliases": {k: v for fr in self.alias_stack for k, v in fr.items() if isinstance(v, dict)},
            # is the innermost fill being rendered lexically scoped (isolated mode / `only`)?
            "lexical": self.fill_lexical[-1] if self.fill_lexical else None,
            # frames captured by a lexically scoped fill that is still being rendered (possibly an OUTER one)
            "lexical_captured_sites": [(base(c[0]), c[1]) for c, lx in zip(self.captured, self.captured_lex) if lx],
            # loops that dynamically enclose this read: on the evaluation stack, or captured for a fill being rendered
            "dyn_loop_sites": sorted({str(x) for x in self.loop_stack} | {str(c[1]) for c in self.captured if base(c[0]) == "for"}),
            "defaultref_env_cands": [(base(k), s) for e in self.defaultref_envs for k, s, vs in e if vs is not None and name in vs],
            # candidates incl. frames the statement does not order (so that a defect model can name them)
            "cands": [(base(k), s, any(fr is c for c in self.captured) or (k.startswith("unspec-with") and (base(k), s) in cap_sites)) for fr in env for k, s, vs in [fr] if vs is not None and name in vs],
        }

    # ------------------------------------------------------------------ evaluation
    def eval(self, nodes, env, owner, provs, top, depth, in_fill, slot_stack):
        """-> list of output strings.  env: variable frames; owner: instance whose template text holds
        ``nodes``; provs: providers on the rendered path; top: instances for which we are at top level."""
        out = []
        for n in nodes:
            k = n[0]
            self.steps += 1
            if self.steps > self.MAX_STEPS:
                # programs whose evaluation explodes (nested alias expansions x loops) are skipped, not judged: both the
                # model and the real render would need memory proportional to an exponentially long output
                raise Unspecified("program too large to judge (model step budget)")
            if k == "text" or k == "fp":
                out.append(f"[{n[1]}]")
            elif k == "elem":
                for i in top:
                    self.instances[i].roots.append(n[1])
                self.elem_occ.append((n[1], sorted(top)))
                self.elem_roots.setdefault(n[1], [])
                self.elem_roots[n[1]] = sorted(set(self.elem_roots[n[1]]) | set(top))
                out.append(f"<e{n[1]}>")
                out += self.eval(n[2], env, owner, provs, frozenset(), depth, in_fill, slot_stack)
                out.append(f"</e{n[1]}>")
            elif k == "if":
                out += self.eval(n[2] if n[1] else n[3], env, owner, provs, top, depth, in_fill, slot_stack)
            elif k == "for":
                for idx, val in enumerate(self.loop_items(n[2], env, in_fill)):
                    fr = ("for", n[3] if len(n) > 4 else None, {n[1]: val})
                    self.loop_stack.append(fr[1])
                    try:
                        out += self.eval(n[-1], env + (fr,), owner, provs, top, depth, in_fill, slot_stack)
                    finally:
                        self.loop_stack.pop()
            elif k == "with":
                val = self.resolve(n[2], env, "with", in_fill)
                out += self.eval(n[3], env + (("with", n[4] if len(n) > 4 else None, {n[1]: val}),), owner, provs, top, depth, in_fill, slot_stack)
            elif k == "var":
                v, sel = lookup(env, n[1])
                self.note_read(n[1], sel, env, in_fill)
                self.var_tokens.append(dict(self.last_read, at=len(out)))
                if callable(v):
                    # the name is a slot-default alias: {{ name }} renders the slot's own default content
                    out.append(f"[{n[1]}=")
                    self.in_defaultref += 1
                    self.defaultref_envs.append(env)
                    try:
                        out += v(top)
                    finally:
                        self.defaultref_envs.pop()
                        self.in_defaultref -= 1
                    out.append("]")
                elif isinstance(v, dict):
                    # the name is a slot-data alias: Django prints the (auto-escaped) dict
                    import html

                    out.append(f"[{n[1]}={html.escape(str(v))}]")
                else:
                    out.append(f"[{n[1]}={'' if v is MISSING else v}]")
            elif k == "dataref":
                v, sel = lookup(env, n[1])
                val = v.get(n[2], "") if isinstance(v, dict) else ""
                out.append(f"[{n[1]}.{n[2]}={val}]")
            elif k == "defaultref":
                v, sel = lookup(env, n[1])
                if callable(v):
                    self.in_defaultref += 1
                    self.defaultref_envs.append(env)
                    try:
                        out += v(top)
                    finally:
                        self.defaultref_envs.pop()
                        self.in_defaultref -= 1
                elif v is not None:
                    # {{ name }} is an ordinary variable read: the alias may be shadowed by a nearer binding
                    import html as _html

                    out.append(_html.escape(str(v)) if isinstance(v, dict) else str(v))
            elif k == "probe":
                if owner is None:
                    raise Unspecified("probe outside a component template")
                out.append(f"[{'Y' if escape_slot_name(n[1]) in {escape_slot_name(f) for f in owner.fills} else 'N'}:{n[1]}]")
            elif k == "idecho":
                out.append(f"[I{owner.no}]")
            elif k == "pyecho":
                # HTML of <class>.render() called from get_context_data(): a root render with an empty Context (the class
                # sees only its own data, no providers, no fills), printed here - so its top-level elements are top-level
                # output of the enclosing instances for which this place is top-level
                cls2 = self.p["classes"][n[1]]
                inst2 = Inst(len(self.instances), n[1], {}, None)
                inst2.only = False
                inst2.pyrendered = True
                self.instances.append(inst2)
                if n[1] not in self.classes_in_order:
                    self.classes_in_order.append(n[1])
                for key, default in cls2.get("inject", []):
                    if default is None:
                        raise Expected("KeyError", f"inject('{key}') without provider or default (python render)")
                    inst2.injected[key] = default
                if self.collect_errors:
                    # (its own Class.render() calls run in ITS get_context_data(), before its template)
                    for target in cls2.get("pyrender", []):
                        try:
                            self.eval([["pyecho", target]], (), inst2, {}, frozenset(), depth + 1, False, ())
                        except Expected as e:
                            self.errors.append((e.exc_class, e.why))
                inst2.tenv = (("data", f"D{n[1]}", dict(cls2.get("data", {}))),)
                inst2.dyn_ancestors = [i.cname for i in self.render_stack]
                self.render_stack.append(inst2)
                try:
                    out += self.eval(cls2["template"], inst2.tenv, inst2, {}, top | {inst2.no}, depth + 1, False, ())
                except Expected as e:
                    # (raised inside get_context_data() of the enclosing component, i.e. before any error of its template)
                    if not self.collect_errors:
                        raise
                    self.errors.append((e.exc_class, e.why))
                finally:
                    self.render_stack.pop()
            elif k == "injecho":
                out.append(f"[inj:{n[1]}={owner.injected.get(n[1], '')}]")
            elif k == "provide":
                self.provider_count += 1
                vals = {kk: self.resolve(e, env, "provide", in_fill) for kk, e in n[2].items()}
                p2 = dict(provs)
                p2[n[1]] = (self.provider_count, vals, owner is None and not slot_stack and depth == 0)
                # provided kwargs never become template variables: env unchanged
                out += self.eval(n[3], env, owner, p2, top, depth, in_fill, slot_stack)
            elif k == "comp":
                out += self.eval_comp(n, env, owner, provs, top, depth, in_fill, slot_stack)
            elif k == "slot":
                out += self.eval_slot(n, env, owner, provs, top, depth, in_fill, slot_stack)
            else:
                raise ValueError(k)
        return out

    def loop_items(self, items, env, in_fill):
        if isinstance(items, str):
            return list(items)
        if items and items[0] == "var":
            v, sel = lookup(env, items[1])
            return [] if v is MISSING else list(v)
        return list(items)

    # ------------------------------------------------------------------ component tag
    def collect_fills(self, sites, env, owner, between, out_fills, in_fill, loop_depth=0):
        for s in sites:
            k = s[0]
            if k == "fill":
                name = self.resolve(s[1], env + between, "fill-name", in_fill)
                if s[1][0] == "var":
                    self.events["dynamic_name"] += 1
                if loop_depth:
                    self.events["fill_in_loop"] += 1
                if name in out_fills:
                    raise Expected("TemplateSyntaxError", f"duplicate fill '{name}'")
                out_fills[name] = Closure(s[2], owner, env, between, s[3], s[4], site=len(out_fills))
            elif k == "if":
                self.collect_fills(s[2] if s[1] else s[3], env, owner, between, out_fills, in_fill, loop_depth)
            elif k == "for":
                for val in self.loop_items(s[2], env + between, in_fill):
                    fr = ("for", s[3] if len(s) > 4 else None, {s[1]: val})
                    self.collect_fills(s[-1], env, owner, between + (fr,), out_fills, in_fill, loop_depth + 1)
            elif k == "with":
                val = self.resolve(s[2], env + between, "with", in_fill)
                fr = ("with", s[4] if len(s) > 4 else None, {s[1]: val})
                self.collect_fills(s[3], env, owner, between + (fr,), out_fills, in_fill, loop_depth)
            elif k == "text":
                self._text_beside_fills = True
            else:
                raise ValueError(k)

    def eval_comp(self, n, env, owner, provs, top, depth, in_fill, slot_stack):
        if not self.collect_errors:
            return self._eval_comp(n, env, owner, provs, top, depth, in_fill, slot_stack)
        # error-collection pass: a failing component renders nothing and evaluation goes on, so that every error a
        # render could meet FIRST under some evaluation order of independent components is found
        try:
            return self._eval_comp(n, env, owner, provs, top, depth, in_fill, slot_stack)
        except Expected as e:
            self.errors.append((e.exc_class, e.why))
            return []

    def _eval_comp(self, n, env, owner, provs, top, depth, in_fill, slot_stack):
        cname, opts, body = n[1], n[2], n[3]
        cls = self.p["classes"][cname]
        fills = {}
        if body is not None:
            if body[0] == "implicit":
                if body[1]:  # an empty / whitespace-only body is no body
                    fills["default"] = Closure(body[1], owner, env, (), site="implicit")
            else:
                self._text_beside_fills = False
                self.collect_fills(body[1], env, owner, (), fills, in_fill)
                if self._text_beside_fills and fills:
                    raise Expected("TemplateSyntaxError", "text beside explicit fills")
                if not fills:
                    raise Unspecified("fills body captured no fill")
        kwargs = {kk: self.resolve(e, env, "kwarg", in_fill) for kk, e in opts.get("kwargs", {}).items()}
        inst = Inst(len(self.instances), cname, fills, owner)
        inst.only = bool(opts.get("only"))
        self.instances.append(inst)
        if cname not in self.classes_in_order:
            self.classes_in_order.append(cname)
        self.events["max_depth"] = max(self.events["max_depth"], depth + 1)
        # inject(): nearest provider on the rendered path
        for key, default in cls.get("inject", []):
            if key in provs:
                pno, vals, page_level = provs[key]
                if "page_level_provider_released_by_first_sibling" in self.sw and page_level and self._page_level_provider_used.get(pno):
                    raise Expected("KeyError", f"provider {pno} released by an earlier sibling (listed finding)")
                inst.injected[key] = "/".join(f"{kk}:{vv}" for kk, vv in sorted(vals.items()))
                self.events["inject_hit"] += 1
                inst._used_page_provider = pno if page_level else None
            elif default is not None:
                inst.injected[key] = default
                self.events["inject_default"] += 1
            else:
                raise Expected("KeyError", f"inject('{key}') without provider or default")
        if self.collect_errors:
            # Class.render() calls made by get_context_data() run before the template: their errors can surface before
            # any error of this component's own template
            for target in cls.get("pyrender", []):
                try:
                    self.eval([["pyecho", target]], (), inst, {}, frozenset(), depth + 1, False, ())
                except Expected as e:
                    self.errors.append((e.exc_class, e.why))
        # data returned by get_context_data: fixed values + kwargs echo
        data = dict(cls.get("data", {}))
        for kk, vv in kwargs.items():
            data["k_" + kk] = vv
        data_fr = ("data", f"D{cname}", data)
        isolated = self.mode == ISOLATED or opts.get("only")
        if isolated:
            tenv = ()
            if "loop_frames_leak_into_isolated_template" in self.sw:
                for fr in reversed(env):
                    if fr[0].split(":")[-1] in ("for", "leak") and fr[2] is not None:
                        if any(fr is c for c in self.captured):
                            # inside fill content the "innermost loop layer" is the single merged layer that was
                            # captured for the fill: every enclosing loop layer plus everything bound between the
                            # component tag and the fill
                            merged = {}
                            for c in self.captured:
                                if c[2] is not None:
                                    merged.update(c[2])
                            tenv = (("leak", fr[1], merged),)
                        else:
                            tenv = (("leak", fr[1], fr[2]),)
                        break
            tenv = tenv + (data_fr,)
        else:
            tenv = env + (data_fr,)
        inst.tenv = tenv
        inst.dyn_ancestors = [i.cname for i in self.render_stack]
        self.render_stack.append(inst)
        try:
            res = self.eval(cls["template"], tenv, inst, provs, top | {inst.no}, depth + 1, False, slot_stack)
        finally:
            self.render_stack.pop()
        if "page_level_provider_released_by_first_sibling" in self.sw and depth == 0 and owner is None:
            # a page-level component finished: every page-level provider it (or its descendants) referenced is released
            for key, (pno, vals, page_level) in provs.items():
                if page_level:
                    self._page_level_provider_used[pno] = True
        return res

    _page_level_provider_used = {}

    # ------------------------------------------------------------------ slot tag
    def eval_slot(self, n, env, owner, provs, top, depth, in_fill, slot_stack):
        nameexpr, flags, body, data = n[1], n[2], n[3], n[4] if len(n) > 4 else {}
        if owner is None:
            raise Expected("TemplateSyntaxError", "slot outside a component")
        name = self.resolve(nameexpr, env, "slot-name", in_fill)
        inst = owner
        fills = inst.fills
        if "default_content_uses_outer_fills" in self.sw:
            pass
        if flags.get("default"):
            if inst.default_slot is not None and inst.default_slot != name:
                raise Expected("TemplateSyntaxError", "two default slots with different names")
            inst.default_slot = name
            if name != "default" and name in fills and "default" in fills:
                raise Expected("TemplateSyntaxError", "slot filled twice (explicitly and as default)")
        fill_name = "default" if (flags.get("default") and "default" in fills) else name
        slot_data = {kk: self.resolve(e, env, "slot-data", in_fill) for kk, e in data.items()}
        if in_fill:
            self.events["slot_in_fill"] += 1
        if slot_stack and slot_stack[-1] == "default":
            self.events["slot_in_default"] += 1

        def render_default(top_at_use=None):
            # root-ness is structural: default content expanded through the default alias somewhere else lands in the
            # output of the instances for which THAT place is top-level
            return self.eval(body, env, owner, provs, top if top_at_use is None else top_at_use, depth, in_fill, slot_stack + ("default",))

        if fill_name in fills:
            self.events["slot_filled"] += 1
            c = fills[fill_name]
            aliases = {}
            if c.data_alias:
                aliases[c.data_alias] = slot_data
            if c.default_alias:
                aliases[c.default_alias] = render_default
            alias_fr = ("alias", "A", aliases)
            if self.mode == ISOLATED or getattr(inst, "only", False):
                # lexical: environment at the component tag + enclosing loops between tag and fill + aliases
                loops = tuple(fr for fr in c.between if fr[0] == "for")
                if any(fr[0] == "with" for fr in c.between):
                    fenv = c.def_env + tuple(("unspec-with", fr[1], fr[2]) if fr[0] == "with" else fr for fr in c.between) + (alias_fr,)
                elif "lexical_captured_layer_below_outer_template" in self.sw and c.lex_owner is not None:
                    # defect model of the listed finding (fill written inside a component template, lexical scoping): the
                    # layer captured for the fill is inserted BELOW the layers of the template the fill is written in, so
                    # every name bound there - including an enclosing loop's variable of the same name - hides the loops
                    # between tag and fill
                    fenv = loops + c.def_env + (alias_fr,)
                else:
                    fenv = c.def_env + loops + (alias_fr,)
            elif in_fill:
                # django mode, slot tag itself evaluated inside fill content (fill forwarding): the dynamic
                # context there also holds frames of intermediate components that the statement does not
                # order; names bound by those frames are unspecified, everything else follows the rule
                stmt = c.def_env + c.between + (inst.tenv[-1],)
                extra = set()
                everything = False
                for fr in env:
                    if any(fr is sf for sf in stmt):
                        continue
                    if fr[2] is None:
                        everything = True
                    else:
                        extra |= set(fr[2])
                fenv = stmt + (("unspec-forwarded", None, None if everything else extra), alias_fr)
            else:
                # django: outer variables < bound between tag and fill < inner component data [< aliases]
                inner_data = (inst.tenv[-1],)
                around_slot = tuple(("unspec-inner:" + fr[0].split(":")[-1], fr[1], fr[2]) for fr in env[len(inst.tenv):])
                fenv = c.def_env + c.between + inner_data + around_slot + (alias_fr,)
            # (an implicit body has no {% fill %} tag, hence no captured layer)
            cap = [] if c.site == "implicit" else [fr for fr in c.def_env if fr[0].split(":")[-1] in ("for", "leak")] + list(c.between)
            self.captured.extend(cap)
            self.captured_lex.extend([self.mode == ISOLATED or bool(getattr(inst, "only", False))] * len(cap))
            self.alias_stack.append(aliases)
            self.fill_lexical.append(self.mode == ISOLATED or bool(getattr(inst, "only", False)))
            try:
                return self.eval(c.body, fenv, c.lex_owner, provs, top, depth, True, slot_stack + ("fill",))
            finally:
                self.fill_lexical.pop()
                self.alias_stack.pop()
                del self.captured[len(self.captured) - len(cap) :]
                del self.captured_lex[len(self.captured_lex) - len(cap) :]
        if flags.get("required"):
            raise Expected("TemplateSyntaxError", f"required slot '{name}' not filled")
        self.events["slot_default"] += 1
        return render_default()
