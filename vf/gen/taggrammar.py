"""E4 - tag-argument grammar: AST, seeded generator, layout renderer, reference evaluator.

AST (JSON-able lists):
  leaf     ["int",n] ["float","1.5"] ["str",s] ["trans",s] ["none"] ["true"] ["false"] ["var",path]
           ["filt", leaf, [[name, argleaf|None], ...]]          (args are leaves)
           ["dyn", [["text",s]|["var",exprtext]|["block",src]|["comment",s], ...]]
  cont     ["list", [item...]]   item = expr | ["spread", var|filt|list]
           ["dict", [entry...]]  entry = ["pair", keyleaf, expr] | ["spread", var|dict]
  param    ["pos", expr] | ["kw", key, expr] | ["spread", var] | ["flag", name]

Reference evaluation: leaves by *stock Django* (FilterExpression / Template), containers, spreads
and aggregation by plain Python.
"""
import random
import re

_ACCIDENTAL_TAG = re.compile(r"\{\{.*\}\}|\{%.*%\}|\{#.*#\}", re.S)

CONTEXTS = [
    {
        "flagx": "FX-var", "flagy": 0, "v_int": 7, "v_zero": 0, "v_str": "hello", "v_html": "<b>&\"x'</b>", "v_list": [1, 2, 3], "v_tuple": ("t1", "t2"), "v_empty": [],
        "v_dict": {"a": 1, "b": "two"}, "v_dict2": {"c-d": [1], "@e": None}, "v_none": None, "v_nested": {"k": {"z": [10, 20]}}, "v_t": True, "v_f": False,
    },
    {
        "flagx": ["fx"], "flagy": "FY-var", "v_int": -3, "v_zero": 0, "v_str": "Wörld x", "v_html": "a&b", "v_list": ["p", "q"], "v_tuple": (), "v_empty": [],
        "v_dict": {"b": 5, "zz": [1, {"y": 2}]}, "v_dict2": {}, "v_none": None, "v_nested": {"k": {"z": []}}, "v_t": True, "v_f": False,
    },
    {
        "flagx": None, "flagy": {"f": 1}, "v_int": 10 ** 12, "v_zero": 0, "v_str": "", "v_html": "<i>", "v_list": [[1], [2, 3]], "v_tuple": (1,), "v_empty": [],
        "v_dict": {"a": None}, "v_dict2": {"k k": 1}, "v_none": None, "v_nested": {"k": {"z": [0]}}, "v_t": True, "v_f": False,
    },
]
VARS_ANY = ["v_int", "v_str", "v_html", "v_list", "v_dict", "v_none", "v_nested.k", "v_nested.k.z", "v_dict.b", "v_list.0", "v_t", "v_f", "v_zero"]
VARS_ITER = ["v_list", "v_tuple", "v_empty", "v_nested.k.z"]
VARS_MAP = ["v_dict", "v_dict2", "v_nested.k"]
VARS_HASHABLE = ["v_int", "v_str", "v_t", "v_zero"]
STR_ALPHA = ["a", "B", " ", "x y", "é", "1", "-", "_", ".", ",", ":", "|", "=", "[", "]", "{", "}", "*", "/", "<", "&", "%", "#", "(", ")", "\"", "'", "...", "\\\\"]
# filters (stock Django): name, takes_arg, arg generator kind
FILTERS = [
    ("upper", None), ("lower", None), ("title", None), ("length", None), ("safe", None), ("first", None), ("last", None), ("default", "any"),
    ("default_if_none", "any"), ("add", "num"), ("add", "str"), ("cut", "str"), ("join", "str"), ("yesno", "yesno"), ("slice", "slice"), ("escape", None), ("capfirst", None),
]
SPECIAL_KEYS = ["my-date", "@click.native", "#some_id", "data_x", "x.y", "a-b-c", "k9", "_u", "éclair", "class", "for"]
FLAGS = ["flagx", "flagy"]


# ---------------------------------------------------------------------------------------
# generator
class Gen:
    def __init__(self, rng, max_depth=4):
        self.rng = rng
        self.max_depth = max_depth
        self.features = set()

    def str_content(self):
        rng = self.rng
        n = rng.choice([0, 1, 1, 2, 3, 5])
        parts = [rng.choice(STR_ALPHA) for _ in range(n)]
        # a plain string must not accidentally contain a complete {{ }}, {% %} or {# #}
        if _ACCIDENTAL_TAG.search("".join(parts)):
            parts = [p for p in parts if p != "}"]
        return parts

    def literal(self):
        rng = self.rng
        r = rng.random()
        if r < 0.22:
            return ["int", rng.choice([0, 1, 5, -2, 42, 1000])]
        if r < 0.30:
            self.features.add("float")
            return ["float", rng.choice(["1.5", "-0.25", "2.0", "1e3"])]
        if r < 0.70:
            return ["str", self.str_content()]
        if r < 0.78:
            self.features.add("translation")
            return ["trans", self.str_content()]
        return [rng.choice(["none", "true", "false"])]

    def leaf(self, allow_filter=True, allow_dyn=True):
        rng = self.rng
        r = rng.random()
        if r < 0.30:
            base = ["var", rng.choice(VARS_ANY)]
        elif r < 0.40 and allow_dyn:
            d = self.dyn()
            if allow_filter and rng.random() < 0.2:
                # filters after a nested-template string apply to the RESULT of the nested template
                self.features.add("dynamic-string-with-filters")
                # (not escape / safe: whether the VALUE of a nested template counts as already-safe text is not part
                # of "the value it denotes" - the library hands over a plain str for a lone text node)
                return self.filtered(d, exclude=("escape", "safe"))
            return d
        elif r < 0.46 and allow_filter:
            # a PLAIN string followed by a filter whose argument is a string with template syntax (or the two strings form
            # a tag-like span between them): filter arguments are literals, the value is an ordinary filter expression
            self.features.add("plain-string-with-tag-like-filter-argument")
            opener, closer = rng.choice([("{{", "}}"), ("{#", "#}"), ("{%", "%}")])
            base = ["str", rng.choice([["a"], ["a", opener], ["&", opener, " "], [opener, "b"], []])]
            arg = ["str", rng.choice([[opener, " ", "v_int", " ", closer], [closer], [" ", closer, ","], [opener, "x", closer, "y"]])]
            chain = [[rng.choice(["default_if_none", "add", "cut", "default"]), arg]]
            if rng.random() < 0.4:
                chain.insert(rng.randint(0, 1), [rng.choice(["lower", "upper"]), None])
            return ["filt", base, chain]
        else:
            base = self.literal()
        if allow_filter and rng.random() < 0.3:
            return self.filtered(base)
        return base

    def filter_arg(self, kind):
        rng = self.rng
        if kind == "num":
            return rng.choice([["int", 1], ["int", -4], ["var", "v_int"]])
        if kind == "str":
            return rng.choice([["str", ["x"]], ["str", [" "]], ["str", [","]], ["var", "v_str"], ["str", ["a", ":", "b"]]])
        if kind == "yesno":
            return ["str", ["y", ",", "n", ",", "m"]]
        if kind == "slice":
            return rng.choice([["str", [":", "2"]], ["str", ["1", ":"]]])
        return self.literal() if rng.random() < 0.7 else ["var", rng.choice(VARS_ANY)]

    def filtered(self, base, allow_args=True, exclude=()):
        rng = self.rng
        self.features.add("filter")
        chain = []
        for _ in range(rng.choice([1, 1, 2, 3])):
            name, kind = rng.choice(FILTERS)
            if name in exclude:
                continue
            if kind is None:
                chain.append([name, None])
            elif allow_args:
                self.features.add("filter-arg")
                chain.append([name, self.filter_arg(kind)])
        if not chain:
            chain.append(["upper", None])
        return ["filt", base, chain]

    def dyn(self):
        rng = self.rng
        self.features.add("dynamic-string")
        r = rng.random()

        def var_part():
            e = rng.choice(VARS_ANY)
            if rng.random() < 0.4:
                e += rng.choice(["|upper", "|length", "|default:OTHERQxOTHERQ", "|add:1", "|safe", "|first"])
            pad = rng.choice([" ", "", "  "])
            if rng.random() < 0.12:
                # a line break INSIDE the nested tag (multi-line tags are a documented feature of the library)
                self.features.add("dynamic-newline-inside-nested-tag")
                return ["var", rng.choice(["\n", "\n  ", " "]) + e + rng.choice(["\n", " \n "])]
            return ["var", pad + e + pad]

        def block_part():
            return ["block", rng.choice([
                "{% firstof v_none v_int %}", "{% if v_t %}yes{% else %}no{% endif %}", "{% for i in v_list %}<{{ i }}>{% endfor %}",
                "{% with q=v_int %}{{ q|add:1 }}{% endwith %}", "{% firstof v_html %}", "{% if v_f %}x{% endif %}",
                "{% firstof\n  v_none v_int\n%}", "{% if v_t\n%}yes{% else\n%}no{% endif\n%}",
            ])]

        if r < 0.35:
            self.features.add("dynamic-single-var")
            return ["dyn", [var_part()]]
        if r < 0.50:
            self.features.add("dynamic-single-block")
            return ["dyn", [block_part()]]
        parts = []
        for _ in range(rng.randint(2, 4)):
            q = rng.random()
            if q < 0.35:
                parts.append(["text", rng.choice(["a", " ", "x y", "é", "1", ":", "=", ",", "[", "<b>", "&"])])
            elif q < 0.65:
                parts.append(var_part())
            elif q < 0.85:
                parts.append(block_part())
            else:
                parts.append(["comment", rng.choice([" c ", "", " {{ x }} "])])
        if not any(p[0] != "text" for p in parts):
            parts.append(var_part())
        if rng.random() < 0.15:
            self.features.add("dynamic-with-newline")
            parts.insert(rng.randint(0, len(parts)), ["text", "\n"])
        return ["dyn", parts]

    def expr(self, depth=0):
        rng = self.rng
        if depth < self.max_depth and rng.random() < (0.35 if depth == 0 else 0.25):
            return self.container(depth)
        return self.leaf()

    def container(self, depth):
        rng = self.rng
        if rng.random() < 0.5:
            self.features.add("list")
            items = []
            for _ in range(rng.choice([0, 1, 2, 2, 3, 4])):
                if rng.random() < 0.2:
                    self.features.add("list-spread")
                    r = rng.random()
                    if r < 0.6:
                        inner = ["var", rng.choice(VARS_ITER)]
                    elif r < 0.75:
                        inner = ["filt", ["var", "v_list"], [["slice", ["str", [":", "2"]]]]]
                    else:
                        self.features.add("spread-literal")
                        inner = ["list", [self.expr(depth + 2) for _ in range(rng.randint(0, 2))]]
                    items.append(["spread", inner])
                else:
                    items.append(self.expr(depth + 1))
            if depth >= 1:
                self.features.add("nested-container")
            return ["list", items]
        self.features.add("dict")
        entries = []
        for _ in range(rng.choice([0, 1, 2, 2, 3])):
            if rng.random() < 0.2:
                self.features.add("dict-spread")
                if rng.random() < 0.7:
                    inner = ["var", rng.choice(VARS_MAP)]
                else:
                    self.features.add("spread-literal")
                    inner = ["dict", [["pair", ["str", [rng.choice("pqr")]], self.expr(depth + 2)] for _ in range(rng.randint(0, 2))]]
                entries.append(["spread", inner])
            else:
                r = rng.random()
                if r < 0.6:
                    key = ["str", [rng.choice(["a", "b", "k", "x y", "c-d", "@e", "1"])]]
                elif r < 0.72:
                    key = ["int", rng.choice([1, 2, 0])]
                elif r < 0.78:
                    # falsy / None / bool keys, literal or through a variable or a missing variable
                    self.features.add("dict-key-none-or-bool")
                    key = rng.choice([["none"], ["true"], ["false"], ["var", "v_none"], ["var", "v_f"], ["var", "v_t"], ["str", []], ["var", "v_missing"]])
                elif r < 0.9:
                    key = ["var", rng.choice(VARS_HASHABLE)]
                else:
                    self.features.add("dict-key-filter")
                    key = ["filt", ["var", "v_str"], [[rng.choice(["upper", "lower", "length"]), None]]]
                entries.append(["pair", key, self.expr(depth + 1)])
        if depth >= 1:
            self.features.add("nested-container")
        return ["dict", entries]

    def params(self, allow_pos=True, allow_flags=True, max_params=5):
        rng = self.rng
        out = []
        used = set()
        npos = rng.choice([0, 0, 1, 2]) if allow_pos else 0
        for _ in range(npos):
            if rng.random() < 0.2:
                self.features.add("top-spread-list")
                if rng.random() < 0.3:
                    # the spread applies to the filtered value: ...v_list|slice:":2"
                    self.features.add("top-spread-with-filter")
                    out.append(["spread", ["filt", ["var", "v_list"], [["slice", ["str", [":", "2"]]]]]])
                else:
                    out.append(["spread", ["var", rng.choice(VARS_ITER)]])
            else:
                out.append(["pos", self.expr()])
        nkw = rng.randint(0, max_params - npos)
        agg_used = set()
        for _ in range(nkw):
            r = rng.random()
            if r < 0.15:
                self.features.add("top-spread-dict")
                m = rng.choice(VARS_MAP)
                if ("spread", m) in used:
                    continue
                used.add(("spread", m))
                if rng.random() < 0.3:
                    self.features.add("top-spread-with-filter")
                    out.append(["spread", ["filt", ["var", "v_none"], [["default_if_none", ["var", m]]]]])
                else:
                    out.append(["spread", ["var", m]])
            elif r < 0.35:
                self.features.add("aggregate-key")
                prefix = rng.choice(["attrs", "agg"])
                inner = rng.choice(["class", "data-id", "@click.stop", "x", "y:z", "id"])
                k = f"{prefix}:{inner}"
                if k in used or prefix in used:
                    continue
                used.add(k)
                agg_used.add(prefix)
                out.append(["kw", k, self.expr()])
            else:
                if r < 0.55:
                    self.features.add("special-key")
                    k = rng.choice(SPECIAL_KEYS)
                else:
                    k = rng.choice(["alpha", "beta", "gamma", "delta", "title", "n"])
                if k in used or k in agg_used:
                    continue
                used.add(k)
                if rng.random() < 0.06:
                    # the VALUE is a variable named like one of the tag's flags: still a keyword argument
                    self.features.add("kwarg-value-named-like-flag")
                    out.append(["kw", k, ["var", rng.choice(FLAGS)]])
                else:
                    out.append(["kw", k, self.expr()])
        if allow_flags:
            for f in FLAGS:
                if rng.random() < 0.15:
                    self.features.add("flag")
                    out.insert(rng.randint(0, len(out)), ["flag", f])
        return out


def spread_key_conflicts(params, ctx):
    """True if top-level dict spreads collide with explicit keys in this context (then the call is a
    duplicate-keyword TypeError by C11 and the case is out of C02's scope)."""
    keys = []
    for p in params:
        if p[0] == "kw":
            keys.append(p[1].split(":", 1)[0] if (":" in p[1] and not p[1].startswith(":")) else p[1])
        elif p[0] == "spread":
            v = lookup(ctx, p[1][1]) if p[1][0] == "var" else None
            if p[1][0] == "filt" and p[1][2] and p[1][2][0][0] == "default_if_none" and p[1][2][0][1][0] == "var":
                v = lookup(ctx, p[1][2][0][1][1])  # ...v_none|default_if_none:<map>
            if isinstance(v, dict):
                keys.extend(v.keys())
    plain = [k for k in keys]
    return len(set(plain)) != len(plain)


def lookup(ctx, path):
    cur = ctx
    for bit in path.split("."):
        if isinstance(cur, dict):
            cur = cur[bit]
        else:
            cur = cur[int(bit)]
    return cur


# ---------------------------------------------------------------------------------------
# rendering to tag text
class Layout:
    """Layout knobs, all insignificant by the documented syntax."""

    def __init__(self, rng, loose=True, spread_literal_ws=True):
        self.rng = rng
        self.loose = loose
        # whitespace between a */** spread and a *literal* list/dict is drawn from its own stream so
        # that the same layout can be re-rendered without it (defect model of a listed finding)
        self.rng_spread = random.Random(rng.random())
        self.spread_literal_ws = spread_literal_ws

    def spread_ws(self, inner):
        if inner[0] in ("list", "dict"):
            w = self.rng_spread.choice(["", "", " ", "\n", "  "]) if self.loose else ""
            return w if self.spread_literal_ws else ""
        return self.ws(0.3)

    def ws(self, p=0.35, must=False):
        rng = self.rng
        if must:
            return rng.choice([" ", " ", "  ", "\n", "\t", " \n  "]) if self.loose else " "
        if not self.loose or rng.random() > p:
            return ""
        return rng.choice([" ", " ", "  ", "\n", "\t"])

    def quote(self):
        return self.rng.choice("\"'") if self.loose else '"'


def _content(parts, q):
    """String content is layout independent; the quote character in use is backslash-escaped."""
    return "".join("\\" + q if p == q else p for p in parts)


def render_leaf(node, L, in_dict_key=False):
    k = node[0]
    if k == "int":
        return str(node[1])
    if k == "float":
        return node[1]
    if k == "str":
        q = L.quote()
        return q + _content(node[1], q) + q
    if k == "trans":
        q = L.quote()
        return "_(" + q + _content(node[1], q) + q + ")"
    if k == "none":
        return "None"
    if k == "true":
        return "True"
    if k == "false":
        return "False"
    if k == "var":
        return node[1]
    if k == "filt":
        s = render_leaf(node[1], L)
        for name, arg in node[2]:
            s += L.ws() + "|" + L.ws() + name
            if arg is not None:
                s += L.ws() + ":" + L.ws() + render_leaf(arg, L)
        return s
    if k == "dyn":
        # dynamic strings: inner expressions use single quotes, so the literal uses double quotes
        q = '"'
        out = []
        for typ, s in node[1]:
            if typ == "text":
                out.append(s)
            elif typ == "var":
                out.append("{{" + s.replace("OTHERQ", "'") + "}}")
            elif typ == "block":
                out.append(s)
            else:
                out.append("{#" + s + "#}")
        return q + "".join(out) + q
    raise ValueError(k)


def render_expr(node, L):
    k = node[0]
    if k == "list":
        items = []
        for it in node[1]:
            if it[0] == "spread":
                items.append("*" + L.spread_ws(it[1]) + render_expr(it[1], L))
            else:
                items.append(render_expr(it, L))
        s = "[" + L.ws()
        s += (L.ws() + "," + L.ws()).join(items)
        if items and L.loose and L.rng.random() < 0.25:
            s += L.ws() + ","
        return s + L.ws() + "]"
    if k == "dict":
        ents = []
        for e in node[1]:
            if e[0] == "spread":
                ents.append("**" + L.spread_ws(e[1]) + render_expr(e[1], L))
            else:
                ents.append(render_leaf(e[1], L, in_dict_key=True) + L.ws() + ":" + L.ws() + render_expr(e[2], L))
        s = "{" + L.ws()
        s += (L.ws() + "," + L.ws()).join(ents)
        if ents and L.loose and L.rng.random() < 0.25:
            s += L.ws() + ","
        return s + L.ws() + "}"
    return render_leaf(node, L)


def render_params(params, L):
    bits = []
    for p in params:
        if p[0] == "pos":
            bits.append(render_expr(p[1], L))
        elif p[0] == "kw":
            bits.append(p[1] + "=" + render_expr(p[2], L))
        elif p[0] == "spread":
            bits.append("..." + render_expr(p[1], L))
        else:
            bits.append(p[1])
    s = ""
    for b in bits:
        s += L.ws(must=True) + b
    return s


# ---------------------------------------------------------------------------------------
# reference evaluator
class Evaluator:
    def __init__(self):
        from django.template import Context, Template, engines
        from django.template.base import FilterExpression, Parser

        self.Context, self.Template, self.FilterExpression = Context, Template, FilterExpression
        eng = engines["django"].engine
        self.parser = Parser([], builtins=eng.template_builtins)
        self.canon = Layout(random.Random(0), loose=False)
        self.dummy = Template("")

    def leaf(self, node, ctx):
        if node[0] == "dyn":
            return self.dyn(node, ctx)
        if node[0] == "filt" and node[1][0] == "dyn":
            # the nested template first, then the filter chain on its value
            value = self.dyn(node[1], ctx)
            chain = render_leaf(["filt", ["var", "c02_dyn_value"], node[2]], self.canon)
            with ctx.push({"c02_dyn_value": value}):
                return self.FilterExpression(chain, self.parser).resolve(ctx)
        text = render_leaf(node, self.canon)
        return self.FilterExpression(text, self.parser).resolve(ctx)

    def dyn(self, node, ctx):
        parts = node[1]
        # comments produce no node; "a single tag with no extra text" is passed as the original value
        nodes = [p for p in parts if p[0] != "comment" and not (p[0] == "text" and p[1] == "")]
        if len(nodes) == 1 and nodes[0][0] == "var":
            return self.FilterExpression(nodes[0][1].strip().replace("OTHERQ", "'"), self.parser).resolve(ctx)
        src = []
        for typ, s in parts:
            if typ == "text":
                src.append(s)
            elif typ == "var":
                src.append("{{" + s.replace("OTHERQ", "'") + "}}")
            elif typ == "block":
                src.append(s)
            else:
                src.append("{#" + s + "#}")
        # a fresh stock template rendered in the same context object
        return self.Template("".join(src)).render(ctx)

    def expr(self, node, ctx):
        k = node[0]
        if k == "list":
            out = []
            for it in node[1]:
                if it[0] == "spread":
                    out.extend(self.expr(it[1], ctx))
                else:
                    out.append(self.expr(it, ctx))
            return out
        if k == "dict":
            out = {}
            for e in node[1]:
                if e[0] == "spread":
                    out.update(self.expr(e[1], ctx))
                else:
                    out[self.leaf(e[1], ctx)] = self.expr(e[2], ctx)
            return out
        return self.leaf(node, ctx)

    def params(self, params, ctx):
        """-> (args, kwargs, flags)"""
        if ctx.template is None:
            with ctx.bind_template(self.dummy):
                return self.params(params, ctx)
        args, kwargs, flags = [], {}, {f: False for f in FLAGS}
        agg = {}
        for p in params:
            if p[0] == "pos":
                args.append(self.expr(p[1], ctx))
            elif p[0] == "flag":
                flags[p[1]] = True
            elif p[0] == "spread":
                v = self.expr(p[1], ctx)
                if isinstance(v, dict):
                    for kk, vv in v.items():
                        self._kw(kk, vv, kwargs, agg)
                else:
                    args.extend(v)
            else:
                self._kw(p[1], self.expr(p[2], ctx), kwargs, agg)
        for kk, vv in agg.items():
            kwargs[kk] = vv
        return args, kwargs, flags

    @staticmethod
    def _kw(key, value, kwargs, agg):
        if ":" in key and not key.startswith(":"):
            outer, inner = key.split(":", 1)
            agg.setdefault(outer, {})[inner] = value
        else:
            kwargs[key] = value


def norm(v):
    """Type-and-value normal form; SafeString-ness is ignored for text."""
    if isinstance(v, bool) or v is None:
        return ("b", v)
    if isinstance(v, str):
        return ("s", str(v))
    if isinstance(v, int):
        return ("i", v)
    if isinstance(v, float):
        return ("f", v)
    if isinstance(v, (list, tuple)):
        return ("l" if isinstance(v, list) else "t", tuple(norm(x) for x in v))
    if isinstance(v, dict):
        return ("d", tuple((norm(k), norm(x)) for k, x in v.items()))
    return ("o", repr(v))


def norm_call(args, kwargs):
    return (tuple(norm(a) for a in args), tuple(sorted((k, norm(v)) for k, v in kwargs.items())))


# ---------------------------------------------------------------------------------------
# documented-invalid combinations
def invalid_cases(rng):
    v = rng.choice(["v_list", "v_dict", "x"])
    pre = rng.choice(["", "a=1 ", "5 "])
    return rng.choice([
        pre + f"k=v_str|...{v}",  # spread inside a filter
        pre + f"k=v_str|*{v}",
        pre + f"k=[v_str|*{v}]",
        pre + f"k={{**{v}: 1}}",  # spread in dict key position
        pre + f"k={{\"a\": **{v}}}",  # spread in dict value position
        pre + f"k={{\"a\": *{v}}}",
        pre + f"k=[**{v}]",  # wrong token for the container
        pre + f"k={{*{v}}}",
        pre + f"k=[...{v}]",
        pre + f"k={{...{v}}}",
        pre + f"*{v}",
        pre + f"**{v}",
        pre + f"k=...{v}",  # spread after a key
        pre + f"k=[1, ...{v}]",
        pre + f"k={{\"a\": 1, ...{v}}}",
    ])
