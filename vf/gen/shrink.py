"""Delta-debugging shrinker for E1 programs (greedy, structure-aware)."""
import copy

KINDS = {"text", "elem", "if", "for", "with", "var", "slot", "comp", "probe", "dataref", "defaultref", "provide", "idecho", "injecho", "fill", "fp", "pyecho", "raw"}


def _is_nodelist(x):
    return isinstance(x, list) and x and all(isinstance(e, list) and e and isinstance(e[0], str) and e[0] in KINDS for e in x)


def _paths(obj, path=()):
    """Yield paths to every node list inside obj."""
    if isinstance(obj, dict):
        for k, v in obj.items():
            yield from _paths(v, path + (k,))
    elif isinstance(obj, list):
        if _is_nodelist(obj):
            yield path
        for i, v in enumerate(obj):
            yield from _paths(v, path + (i,))


def _get(obj, path):
    for p in path:
        obj = obj[p]
    return obj


def _node_paths(obj, path=()):
    if isinstance(obj, dict):
        for k, v in obj.items():
            yield from _node_paths(v, path + (k,))
    elif isinstance(obj, list):
        if obj and isinstance(obj[0], str) and obj[0] in KINDS:
            yield path
        for i, v in enumerate(obj):
            yield from _node_paths(v, path + (i,))


def candidates(prog):
    # 1. delete one node from a node list
    for path in list(_paths(prog)):
        lst = _get(prog, path)
        for i in range(len(lst)):
            c = copy.deepcopy(prog)
            del _get(c, path)[i]
            yield c
    # 2. simplify single nodes
    for path in list(_node_paths(prog)):
        n = _get(prog, path)
        k = n[0]
        if k == "comp" and n[3] is not None:
            c = copy.deepcopy(prog)
            _get(c, path)[3] = None
            yield c
        if k == "slot":
            if n[3]:
                c = copy.deepcopy(prog)
                _get(c, path)[3] = []
                yield c
            if n[2]:
                c = copy.deepcopy(prog)
                _get(c, path)[2] = {}
                yield c
            if len(n) > 4 and n[4]:
                c = copy.deepcopy(prog)
                _get(c, path)[4] = {}
                yield c
        if k in ("if", "for", "with", "provide", "elem") and len(path) >= 1:
            # hoist the body in place of the wrapper
            parent = _get(prog, path[:-1])
            if isinstance(parent, list) and _is_nodelist(parent):
                body = n[2] if k in ("if", "elem") else n[-1] if k == "for" else n[3]
                if _is_nodelist(body) or body == []:
                    c = copy.deepcopy(prog)
                    p = _get(c, path[:-1])
                    i = path[-1]
                    p[i : i + 1] = copy.deepcopy(body)
                    yield c
    # 3. drop a class that is no longer referenced
    used = set()

    def walk(x):
        if isinstance(x, list):
            if x and x[0] == "comp":
                used.add(x[1])
            for e in x:
                walk(e)
        elif isinstance(x, dict):
            for e in x.values():
                walk(e)

    walk(prog["page"])
    for spec in prog["classes"].values():
        walk(spec["template"])
    for cname in list(prog["classes"]):
        if cname not in used:
            c = copy.deepcopy(prog)
            del c["classes"][cname]
            yield c


def shrink(prog, still_fails, max_steps=400):
    """still_fails(program) -> bool.  Returns the smallest program found."""
    steps = 0
    improved = True
    while improved and steps < max_steps:
        improved = False
        for cand in candidates(prog):
            steps += 1
            if steps > max_steps:
                break
            try:
                ok = still_fails(cand)
            except Exception:  # noqa: BLE001
                ok = False
            if ok:
                prog = cand
                improved = True
                break
    return prog
