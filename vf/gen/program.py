"""E1 - component-program generator and serializer (AST -> Django templates + Component classes).

The AST is documented in vf/model/interp.py.  Everything printed is an unambiguous token so the
rendered string identifies which fill / default / binding / provider produced each position.
"""
import json
import random
import re

SLOT_NAMES = ["a", "b", "c", "default"]
VAR_NAMES = ["x", "y", "z"]
PROVIDE_KEYS = ["k", "j"]


# =======================================================================================
# serializer
def ser_expr(e):
    if e[0] == "lit":
        return '"' + e[1] + '"'
    return e[1]


def ser_nodes(nodes, reg, dynamic=False):
    return "".join(ser_node(n, reg, dynamic) for n in nodes)


def ser_node(n, reg, dynamic=False):
    k = n[0]
    if k == "text":
        return f"[{n[1]}]"
    if k == "raw":  # pre-serialised template source (used by the C10 family splitter)
        return n[1]
    if k == "fp":
        if n[2] == "filter":
            return '{{ "[' + n[1] + ']"|vffilter }}'
        return '{% vftag "[' + n[1] + ']" %}'
    if k == "elem":
        return f"<e{n[1]}>" + ser_nodes(n[2], reg, dynamic) + f"</e{n[1]}>"
    if k == "if":
        s = "{% if " + ("True" if n[1] else "False") + " %}" + ser_nodes(n[2], reg, dynamic)
        if n[3]:
            s += "{% else %}" + ser_nodes(n[3], reg, dynamic)
        return s + "{% endif %}"
    if k == "for":
        items = n[2]
        src = '"' + items + '"' if isinstance(items, str) else items[1]
        return "{% for " + n[1] + " in " + src + " %}" + ser_nodes(n[-1], reg, dynamic) + "{% endfor %}"
    if k == "with":
        return "{% with " + n[1] + "=" + ser_expr(n[2]) + " %}" + ser_nodes(n[3], reg, dynamic) + "{% endwith %}"
    if k == "var":
        return "[" + n[1] + "={{ " + n[1] + " }}]"
    if k == "dataref":
        return "[" + n[1] + "." + n[2] + "={{ " + n[1] + "." + n[2] + " }}]"
    if k == "defaultref":
        return "{{ " + n[1] + " }}"
    if k == "probe":
        esc = re.sub(r"[^\w]", "_", n[1])
        return "{% if component_vars.is_filled." + esc + " %}[Y:" + n[1] + "]{% else %}[N:" + n[1] + "]{% endif %}"
    if k == "idecho":
        return "[I{{ cid }}]"
    if k == "pyecho":
        # HTML that get_context_data() obtained from <class>.render() (a component tree of its own)
        return "{{ py_" + n[1] + " }}"
    if k == "injecho":
        return "[inj:" + n[1] + "={{ inj_" + n[1] + " }}]"
    if k == "provide":
        kw = "".join(" " + kk + "=" + ser_expr(e) for kk, e in n[2].items())
        return '{% provide "' + n[1] + '"' + kw + " %}" + ser_nodes(n[3], reg, dynamic) + "{% endprovide %}"
    if k == "slot":
        nameexpr, flags, body = n[1], n[2], n[3]
        data = n[4] if len(n) > 4 else {}
        s = "{% slot " + (ser_expr(nameexpr) if nameexpr[0] == "lit" else "name=" + nameexpr[1])
        if flags.get("default"):
            s += " default"
        if flags.get("required"):
            s += " required"
        s += "".join(" " + kk + "=" + ser_expr(e) for kk, e in data.items())
        if not body:
            return s + " / %}"
        return s + " %}" + ser_nodes(body, reg, dynamic) + "{% endslot %}"
    if k == "comp":
        cname, opts, body = n[1], n[2], n[3]
        if dynamic:
            s = '{% component "dynamic" is="' + reg(cname) + '"'
        else:
            s = '{% component "' + reg(cname) + '"'
        s += "".join(" " + kk + "=" + ser_expr(e) for kk, e in opts.get("kwargs", {}).items())
        if opts.get("only"):
            s += " only"
        if body is None:
            return s + " / %}"
        if body[0] == "implicit":
            return s + " %}" + ser_nodes(body[1], reg, dynamic) + "{% endcomponent %}"
        return s + " %}" + ser_sites(body[1], reg, dynamic) + "{% endcomponent %}"
    raise ValueError(k)


def ser_sites(sites, reg, dynamic):
    out = []
    for s in sites:
        k = s[0]
        if k == "fill":
            t = "{% fill " + (ser_expr(s[1]) if s[1][0] == "lit" else "name=" + s[1][1])
            if s[3]:
                t += ' data="' + s[3] + '"'
            if s[4]:
                t += ' default="' + s[4] + '"'
            out.append(t + " %}" + ser_nodes(s[2], reg, dynamic) + "{% endfill %}")
        elif k == "if":
            t = "{% if " + ("True" if s[1] else "False") + " %}" + ser_sites(s[2], reg, dynamic)
            if s[3]:
                t += "{% else %}" + ser_sites(s[3], reg, dynamic)
            out.append(t + "{% endif %}")
        elif k == "for":
            items = s[2]
            src = '"' + items + '"' if isinstance(items, str) else items[1]
            out.append("{% for " + s[1] + " in " + src + " %}" + ser_sites(s[-1], reg, dynamic) + "{% endfor %}")
        elif k == "with":
            out.append("{% with " + s[1] + "=" + ser_expr(s[2]) + " %}" + ser_sites(s[3], reg, dynamic) + "{% endwith %}")
        elif k == "text":
            out.append(f"[{s[1]}]")
        else:
            raise ValueError(k)
    return "".join(out)


# =======================================================================================
# building real Component classes
class Built:
    """A program instantiated against the real library (default registry, unique names)."""

    def __init__(self, program, prefix, failpoints=None, dynamic_all=False):
        """``dynamic_all``: every component tag - in the page AND in the class templates - goes through the dynamic component"""
        from django_components import Component, registry

        self.program, self.prefix, self.registry = program, prefix, registry
        self.names = {c: f"{prefix}_{c}" for c in program["classes"]}
        self.classes = {}
        fp = failpoints
        for cname, spec in program["classes"].items():
            attrs = {"template": ser_nodes(spec["template"], self.reg, dynamic_all)}
            attrs["get_context_data"] = self._make_gcd(spec, cname, fp)
            for a in ("js", "css"):
                if spec.get(a):
                    attrs[a] = spec[a]
            if spec.get("media"):
                m = dict(spec["media"])
                if isinstance(m.get("extend"), list):
                    m["extend"] = [self.classes[b] for b in m["extend"]]
                attrs["Media"] = type("Media", (), m)
            if fp is not None:
                attrs["on_render_before"] = self._make_hook(fp, "on_render_before", cname)
                attrs["on_render_after"] = self._make_hook(fp, "on_render_after", cname)
            bases = (Component,)
            if spec.get("base"):
                bases = tuple(self.classes[b] for b in (spec["base"], spec.get("base2")) if b)
            pyname = spec.get("pyname") or f"{prefix.capitalize()}{cname}"
            if spec.get("namekind"):
                from vf.assets import pyname as _pyname

                pyname = _pyname(spec["namekind"], prefix, cname)
            cls = type(pyname, bases, attrs)
            self.classes[cname] = cls
            registry.register(self.names[cname], cls)
        self.page_src = ser_nodes(program["page"], self.reg, dynamic_all)
        self.page_src_dynamic = None

    def reg(self, cname):
        return self.names[cname]

    def _make_gcd(self, spec, cname, fp):
        data = dict(spec.get("data", {}))
        inject = list(spec.get("inject", []))
        pyrender = list(spec.get("pyrender", []))
        built = self
        # (get_context_data() may return an EMPTY dict: the id is only added for programs that echo it)
        uses_cid = '"idecho"' in json.dumps(self.program)

        def get_context_data(self, **kwargs):
            if fp is not None:
                fp.tick("get_context_data", cname)
            d = dict(data)
            for kk, vv in kwargs.items():
                d["k_" + kk] = vv
            if uses_cid:
                d["cid"] = self.id
            for key, default in inject:
                if fp is not None:
                    fp.tick("inject", cname)
                v = self.inject(key, default) if default is not None else self.inject(key)
                if isinstance(v, str):
                    d["inj_" + key] = v
                else:
                    d["inj_" + key] = "/".join(f"{a}:{b}" for a, b in sorted(v._asdict().items()))
            for target in pyrender:
                # a nested root render in the middle of the enclosing render
                d["py_" + target] = built.classes[target].render(render_dependencies=False)
            return d

        return get_context_data

    @staticmethod
    def _make_hook(fp, kind, cname):
        if kind == "on_render_before":

            def on_render_before(self, context, template):
                fp.tick("on_render_before", cname)

            return on_render_before

        def on_render_after(self, context, template, content):
            fp.tick("on_render_after", cname)
            return None

        return on_render_after

    def dynamic_source(self):
        if self.page_src_dynamic is None:
            self.page_src_dynamic = ser_nodes(self.program["page"], self.reg, dynamic=True)
        return self.page_src_dynamic

    def dispose(self):
        for cname, name in self.names.items():
            try:
                self.registry.unregister(name)
            except Exception:  # noqa: BLE001
                pass


# =======================================================================================
# generator
class ProgGen:
    def __init__(self, rng, flavour="slots", nclasses=None, size=None, pyrender=None):
        self.rng = rng
        self.flavour = flavour  # "slots" | "scope" | "provide" | "roots"
        # classes may call OtherClass.render() inside get_context_data() and print the HTML
        self.pyrender = flavour in ("roots", "faults") if pyrender is None else pyrender
        self.ncls = nclasses or rng.randint(2, 5)
        self.size = size or rng.choice([6, 10, 16, 24])
        self.tok = 0
        self.site = 0
        self.uid = 0
        self.features = set()
        w = lambda: rng.choice([0.3, 1.0, 2.5])  # noqa: E731
        self.weights = {"text": 2.0, "comp": w() * 1.5, "slot": w() * 1.5, "if": w() * 0.5, "for": w() * 0.5, "probe": w() * 0.3, "elem": 0.0, "var": 0.0, "with": 0.0, "provide": 0.0}
        if flavour == "roots":
            self.weights.update(elem=2.5, text=0.8)
        if flavour == "scope":
            self.weights.update(var=2.0, **{"with": 0.8}, probe=0.0)
        if flavour == "provide":
            self.weights.update(provide=2.2, probe=0.0)
        if flavour == "faults":
            self.weights.update(provide=0.8, probe=0.2)
        self.classes = {}
        self.slotnames = {}
        self.page_ctx = {}
        self.error_mode = rng.random() < 0.08 if flavour == "slots" else False
        self.default_name = {}
        self.in_between = 0
        # C01 only: the loop that produces looped fills may re-use the variable name of a loop around the component tag (in a
        # lexically scoped fill inside a component template this meets the listed finding of C01 / C03, which only C01 and
        # C03 can attribute)
        self.shadow_loops = False

    def t(self):
        self.tok += 1
        return f"t{self.tok}"

    def newsite(self):
        self.site += 1
        return self.site

    # ------------------------------------------------------------------ program
    def program(self):
        rng = self.rng
        names = [f"c{i}" for i in range(self.ncls)]
        # leaves first so that a class only references classes with a higher index
        for i in reversed(range(self.ncls)):
            cname = names[i]
            self.cur_class = cname
            self.cur_data = {}
            allowed = names[i + 1 :]
            spec = {"data": self.cur_data, "inject": []}
            if self.flavour == "scope" and rng.random() >= 0.2:  # (a fifth of the classes returns an empty dict)
                for v in VAR_NAMES:
                    if rng.random() < 0.5:
                        self.cur_data[v] = f"D{cname}.{v}"
            if self.flavour in ("provide", "faults") and rng.random() < 0.6:
                for key in PROVIDE_KEYS:
                    if rng.random() < 0.6:
                        spec["inject"].append([key, f"DEF-{key}" if rng.random() < 0.9 else None])
            budget = [rng.randint(2, max(3, self.size // 2))]
            body = self.gen_nodes(budget, depth=0, in_comp=True, in_fill=False, allowed=allowed, loops=[], top=True)
            if self.pyrender and allowed and rng.random() < 0.25:
                # get_context_data() renders another class from Python (a component tree of its own, started and
                # finished in the middle of the enclosing render) and the template prints that HTML once
                target = rng.choice(allowed)
                spec["pyrender"] = [target]
                self.features.add("python-render-inside-get_context_data")
                places = [body] + [n[2] for n in body if n and n[0] == "elem"]
                tgt = rng.choice(places)
                tgt.insert(rng.randint(0, len(tgt)), ["pyecho", target])
            if self.flavour in ("roots",) or rng.random() < 0.0:
                body = [["idecho"]] + body
            for key, _ in spec["inject"]:
                body = [["injecho", key]] + body
            if not body:
                body = [["text", self.t()]]
            spec["template"] = body
            self.classes[cname] = spec
            self.slotnames[cname] = sorted(self.collect_slot_names(body))
        self.cur_class = None
        self.cur_data = self.page_ctx
        if self.flavour == "scope":
            for v in VAR_NAMES:
                if rng.random() < 0.6:
                    self.page_ctx[v] = f"P.{v}"
        budget = [rng.randint(2, max(3, self.size // 2))]
        page = self.gen_nodes(budget, depth=0, in_comp=False, in_fill=False, allowed=names, loops=[], top=True)
        if not any(self.has_comp(n) for n in page):
            page.append(self.gen_comp([3], 0, False, False, names, []))
        ordered = {c: self.classes[c] for c in names}
        return {"classes": ordered, "page": page, "page_ctx": self.page_ctx}

    def has_comp(self, n):
        if not isinstance(n, list):
            return False
        if n and n[0] == "comp":
            return True
        return any(self.has_comp(x) for x in n if isinstance(x, list))

    def collect_slot_names(self, nodes):
        out = set()

        def walk(n):
            if isinstance(n, list):
                if n and n[0] == "slot" and n[1][0] == "lit":
                    out.add(n[1][1])
                if n and n[0] == "comp":
                    return  # fills of nested component tags belong to other classes... but slots inside
                for x in n:
                    walk(x)

        for n in nodes:
            walk(n)

        # slots inside fill bodies written in this template belong to this class too
        def walk2(n):
            if isinstance(n, list):
                if n and n[0] == "slot" and n[1][0] == "lit":
                    out.add(n[1][1])
                for x in n:
                    walk2(x)

        for n in nodes:
            walk2(n)
        return out

    # ------------------------------------------------------------------ nodes
    def gen_nodes(self, budget, depth, in_comp, in_fill, allowed, loops, top=False, min_nodes=0):
        rng = self.rng
        out = []
        n = rng.randint(max(1, min_nodes), 3 if depth else 4)
        for _ in range(n):
            if budget[0] <= 0 and len(out) >= min_nodes:
                break
            budget[0] -= 1
            kinds, weights = [], []
            for kind, wgt in self.weights.items():
                if wgt <= 0:
                    continue
                if kind == "comp" and (not allowed or depth > 5):
                    continue
                if kind == "slot" and not in_comp:
                    continue
                if kind == "probe" and (not in_comp):
                    continue
                if kind in ("if", "for", "with", "provide", "elem") and depth > 4:
                    continue
                kinds.append(kind)
                weights.append(wgt)
            kind = rng.choices(kinds, weights)[0]
            out.append(getattr(self, "gen_" + kind)(budget, depth, in_comp, in_fill, allowed, loops))
        return out

    def gen_text(self, budget, depth, in_comp, in_fill, allowed, loops):
        if self.flavour == "faults" and self.rng.random() < 0.45:
            return ["fp", self.t(), self.rng.choice(["filter", "tag"])]
        return ["text", self.t()]

    def gen_elem(self, budget, depth, in_comp, in_fill, allowed, loops):
        self.uid += 1
        uid = self.uid
        kids = self.gen_nodes(budget, depth + 1, in_comp, in_fill, allowed, loops) if self.rng.random() < 0.6 else []
        return ["elem", uid, kids]

    def gen_if(self, budget, depth, in_comp, in_fill, allowed, loops):
        self.features.add("if")
        cond = self.rng.random() < 0.65
        then = self.gen_nodes(budget, depth + 1, in_comp, in_fill, allowed, loops)
        els = self.gen_nodes(budget, depth + 1, in_comp, in_fill, allowed, loops) if self.rng.random() < 0.4 else []
        return ["if", cond, then, els]

    def gen_for(self, budget, depth, in_comp, in_fill, allowed, loops):
        self.features.add("for")
        site = self.newsite()
        if self.flavour == "scope":
            var = self.rng.choice(VAR_NAMES + ["q"])
            lname = f"L{site}"
            vals = [f"L{site}.{var}#{i}" for i in range(self.rng.choice([1, 2, 2]))]
            self.cur_data[lname] = vals
            body = self.gen_nodes(budget, depth + 1, in_comp, in_fill, allowed, loops + [var])
            return ["for", var, ["var", lname], site, body]
        var = f"v{site}"
        items = self.rng.choice(["ab", "a", "abc", "bc", ""])
        body = self.gen_nodes(budget, depth + 1, in_comp, in_fill, allowed, loops + [(var, items)])
        return ["for", var, items, site, body]

    def gen_with(self, budget, depth, in_comp, in_fill, allowed, loops):
        self.features.add("with")
        site = self.newsite()
        var = self.rng.choice(VAR_NAMES)
        body = self.gen_nodes(budget, depth + 1, in_comp, in_fill, allowed, loops)
        return ["with", var, ["lit", f"W{site}.{var}"], body, site]

    def gen_var(self, budget, depth, in_comp, in_fill, allowed, loops):
        return ["var", self.rng.choice(VAR_NAMES)]

    def gen_probe(self, budget, depth, in_comp, in_fill, allowed, loops):
        self.features.add("probe")
        return ["probe", self.rng.choice(SLOT_NAMES)]

    def gen_provide(self, budget, depth, in_comp, in_fill, allowed, loops):
        self.features.add("provide")
        site = self.newsite()
        key = self.rng.choice(PROVIDE_KEYS)
        kwargs = {"v": ["lit", f"P{site}"]}
        simple_loops = [l for l in loops if isinstance(l, tuple)]
        if simple_loops and self.rng.random() < 0.7:
            kwargs["w"] = ["var", simple_loops[-1][0]]
        body = self.gen_nodes(budget, depth + 1, in_comp, in_fill, allowed, loops, min_nodes=1)
        if self.rng.random() < 0.6 and allowed and not any(self.has_comp(n) for n in body):
            body.append(self.gen_comp(budget, depth + 1, in_comp, in_fill, allowed, loops))
        return ["provide", key, kwargs, body]

    def name_expr(self, loops, pool):
        simple_loops = [l for l in loops if isinstance(l, tuple) and l[1]]
        if simple_loops and self.rng.random() < 0.35:
            self.features.add("dynamic-name")
            return ["var", simple_loops[-1][0]]
        return ["lit", self.rng.choice(pool)]

    def gen_slot(self, budget, depth, in_comp, in_fill, allowed, loops):
        rng = self.rng
        self.features.add("slot")
        name = self.name_expr(loops, SLOT_NAMES)
        flags = {}
        if rng.random() < 0.25:
            flags["default"] = True
            # one instance may flag only one slot *name* as default: keep it consistent per class
            # (a slot tag inside a fill body belongs to the class whose template contains it)
            prev = self.default_name.get(self.cur_class)
            if name[0] == "lit" and prev is not None and prev != name[1] and not (self.error_mode and rng.random() < 0.3):
                name = ["lit", prev]
            elif name[0] == "lit" and prev is None:
                self.default_name[self.cur_class] = name[1]
            elif name[0] != "lit" and not self.error_mode:
                flags.pop("default")
        if rng.random() < (0.25 if self.error_mode else 0.04):
            flags["required"] = True
        body = []
        if rng.random() < 0.7:
            self.features.add("slot-default-content")
            body = self.gen_nodes(budget, depth + 1, in_comp, in_fill, allowed, loops)
            if any(self.has_slot(n) for n in body):
                self.features.add("slot-in-slot-default")
        data = {}
        if rng.random() < 0.3:
            data = {"k": ["lit", f"S{self.newsite()}"]}
        if in_fill:
            self.features.add("slot-in-fill")
        if any(isinstance(l, tuple) for l in loops):
            self.features.add("slot-in-loop")
        return ["slot", name, flags, body, data]

    def nested_bodies(self, nodes, out=None, aliases=()):
        """Node lists of component bodies (implicit bodies and fill bodies) nested anywhere in ``nodes``; fills that
        declare an alias of their own are skipped (the name could shadow the outer alias)."""
        out = [] if out is None else out
        for n in nodes:
            if not isinstance(n, list) or not n:
                continue
            k = n[0]
            if k == "comp" and n[3] is not None:
                if n[3][0] == "implicit":
                    if n[3][1]:
                        out.append(n[3][1])
                        self.nested_bodies(n[3][1], out)
                else:
                    self._nested_sites(n[3][1], out)
            elif k in ("if",):
                self.nested_bodies(n[2], out)
                self.nested_bodies(n[3] or [], out)
            elif k in ("for",):
                self.nested_bodies(n[-1], out)
            elif k in ("with", "provide"):
                self.nested_bodies(n[3], out)
            elif k == "elem":
                self.nested_bodies(n[2], out)
        return out

    def _nested_sites(self, sites, out):
        for s_ in sites:
            if s_[0] == "fill":
                if not s_[3] and not s_[4] and s_[2]:
                    out.append(s_[2])
                    self.nested_bodies(s_[2], out)
            elif s_[0] == "if":
                self._nested_sites(s_[2], out)
                self._nested_sites(s_[3] or [], out)
            elif s_[0] == "for":
                self._nested_sites(s_[-1], out)
            elif s_[0] == "with":
                self._nested_sites(s_[3], out)

    def has_slot(self, n):
        if not isinstance(n, list):
            return False
        if n and n[0] == "slot":
            return True
        return any(self.has_slot(x) for x in n if isinstance(x, list))

    def gen_comp(self, budget, depth, in_comp, in_fill, allowed, loops):
        rng = self.rng
        self.features.add("comp")
        cname = rng.choice(allowed)
        opts = {}
        if self.flavour == "scope":
            if rng.random() < 0.4:
                v = rng.choice(VAR_NAMES)
                opts["kwargs"] = {v: ["var", v]}
        r = rng.random()
        if self.flavour == "scope" and rng.random() < 0.15 and not self.in_between:
            # (not inside a fill under a with/for between tag and fill: there the merged captured layer is forwarded
            # as "the loop layer" - listed findings C03-loop-layer-forwarded... x C03-fill-captured-layer-placement)
            # `only` isolates one component: its template sees only its own data and its fills are lexically scoped
            opts["only"] = True
            self.features.add("only")
            if rng.random() < 0.4:
                r = 0.0
        body = None
        targets = self.slotnames.get(cname) or SLOT_NAMES
        if r < 0.25:
            body = None
            self.features.add("comp-no-body")
        elif r < 0.45:
            self.features.add("comp-implicit-body")
            nodes = self.gen_nodes(budget, depth + 1, in_comp, True, allowed, loops, min_nodes=1)
            body = ["implicit", nodes]
        else:
            self.features.add("comp-fills")
            sites = self.gen_sites(budget, depth + 1, in_comp, allowed, loops, targets, top=True)
            if self.error_mode and rng.random() < 0.3:
                sites.insert(rng.randint(0, len(sites)), ["text", self.t()])
            body = ["fills", sites]
        return ["comp", cname, opts, body]

    def gen_sites(self, budget, depth, in_comp, allowed, loops, targets, top=False, used=None, site_loop=None):
        """Fill sites of one component tag.  ``used`` = slot names already taken by fills of this tag
        (shared through nested if/for sites so that duplicates arise only in error programs);
        ``site_loop`` = (var, items) of the enclosing for-loop *between the tag and the fill*."""
        rng = self.rng
        sites = []
        used = used if used is not None else set()
        for _ in range(rng.randint(1, 3)):
            r = rng.random()
            budget[0] -= 1
            if r < 0.70 or depth > 5:
                sloppy = self.error_mode and rng.random() < 0.4
                if site_loop is not None:
                    # inside a loop only the loop variable gives distinct names per iteration
                    var, items = site_loop
                    if not sloppy and (any(ch in used for ch in items) or ("dyn", var) in used):
                        continue
                    name = ["var", var]
                    used.update(items)
                    used.add(("dyn", var))
                    self.features.add("dynamic-name")
                else:
                    outer = [l for l in loops if isinstance(l, tuple) and l[1]]
                    if outer and rng.random() < 0.25:
                        var, items = outer[-1]
                        if not sloppy and any(ch in used for ch in items):
                            continue
                        name = ["var", var]
                        used.update(items)
                        self.features.add("dynamic-name")
                    else:
                        pool = targets if rng.random() < 0.8 else SLOT_NAMES
                        nm = rng.choice(pool)
                        if nm in used and not sloppy:
                            continue
                        used.add(nm)
                        name = ["lit", nm]
                data_alias = rng.choice(["d", "e"]) if rng.random() < 0.3 else None
                default_alias = rng.choice(["f", "g"]) if rng.random() < 0.3 else None
                if self.flavour == "scope":
                    # aliases may collide with ordinary variable names: inside the fill the alias must win, while the
                    # slot's own default content (rendered through the default alias) must not see the aliases
                    if data_alias and rng.random() < 0.5:
                        data_alias = rng.choice(VAR_NAMES)
                    # (the default alias keeps a name of its own: when it is named like a variable, every component
                    # template rendered inside the fill that reads that name expands the default content, and a
                    # difference inside such an expansion cannot be attributed token by token to the listed
                    # finding C03-fill-captured-layer-placement; alias reads inside nested component bodies are
                    # produced by nested_bodies() instead)
                if default_alias and self.in_between:
                    self.features.add("default-alias-under-between-binding")
                floops = loops + ([site_loop] if site_loop else [])
                body = self.gen_nodes(budget, depth + 1, in_comp, True, allowed, floops) if rng.random() < 0.9 else []
                if data_alias:
                    tgt = body
                    if rng.random() < 0.3 and data_alias not in VAR_NAMES:
                        # slot data read further in: inside the body / a fill of a component written in this fill
                        # (an alias named like a variable is only read directly in its fill: further in, a captured loop
                        # copy of that name beating it is the listed finding C03-fill-captured-layer-placement, which
                        # the token-level classifier cannot attribute for alias.key reads)
                        places = self.nested_bodies(body)
                        if places:
                            tgt = rng.choice(places)
                            self.features.add("data-alias-read-in-nested-component-body")
                    tgt.append(["dataref", data_alias, "k"])
                if default_alias:
                    # read the alias directly in the fill, or further in: inside the body / a fill of a component that
                    # is itself written in this fill (the slot's original content passed on to another component)
                    places = [body]
                    if rng.random() < 0.4:
                        places = self.nested_bodies(body) or [body]
                        if places != [body]:
                            self.features.add("default-alias-read-in-nested-component-body")
                    tgt = rng.choice(places)
                    tgt.insert(rng.randint(0, len(tgt)), ["defaultref", default_alias])
                    self.features.add("default-alias")
                sites.append(["fill", name, body, data_alias, default_alias])
            elif r < 0.82:
                self.features.add("conditional-fill")
                cond = rng.random() < 0.7
                then = self.gen_sites(budget, depth + 1, in_comp, allowed, loops, targets, used=used, site_loop=site_loop)
                els = self.gen_sites(budget, depth + 1, in_comp, allowed, loops, targets, used=used, site_loop=site_loop) if rng.random() < 0.3 else []
                sites.append(["if", cond, then, els])
            elif r < 0.94 and self.flavour != "scope" and site_loop is None:
                self.features.add("looped-fill")
                site = self.newsite()
                var = f"v{site}"
                outer_simple = [l for l in loops if isinstance(l, tuple)]
                if self.shadow_loops and outer_simple and rng.random() < 0.4:
                    # the loop that produces the fills re-uses the variable name of a loop AROUND the component tag:
                    # inside the fill (and for a pass-through {% slot name=var %}) the nearer loop wins
                    var = rng.choice(outer_simple)[0]
                    self.features.add("looped-fill-shadows-enclosing-loop")
                items = rng.choice(["ab", "a", "bc", "abc", "c"])
                inner = self.gen_sites(budget, depth + 1, in_comp, allowed, loops, targets, used=used, site_loop=(var, items))
                sites.append(["for", var, items, site, inner])
            elif self.flavour == "scope":
                site = self.newsite()
                self.in_between += 1
                if rng.random() < 0.5:
                    var = rng.choice(VAR_NAMES)
                    inner = self.gen_sites(budget, depth + 1, in_comp, allowed, loops, targets, used=used)
                    sites.append(["with", var, ["lit", f"W{site}.{var}"], inner, site])
                else:
                    var = rng.choice(VAR_NAMES + ["q"])
                    lname = f"L{site}"
                    self.cur_data[lname] = [f"L{site}.{var}#0"]
                    inner = self.gen_sites(budget, depth + 1, in_comp, allowed, loops + [var], targets, used=used)
                    sites.append(["for", var, ["var", lname], site, inner])
                self.in_between -= 1
        return sites


def digest_features(program):
    """Static feature summary used for evidence histograms."""
    feats = set()

    def walk(n, in_fill, in_default, in_loop):
        if not isinstance(n, list) or not n:
            return
        k = n[0] if isinstance(n[0], str) else None
        if k == "slot":
            if in_fill:
                feats.add("slot-in-fill")
            if in_default:
                feats.add("slot-in-default")
            if in_loop:
                feats.add("slot-in-loop")
            for x in n[3]:
                walk(x, in_fill, True, in_loop)
            return
        if k == "fill":
            if in_loop:
                feats.add("fill-in-loop")
            for x in n[2]:
                walk(x, True, in_default, in_loop)
            return
        if k == "for":
            for x in n[-1]:
                walk(x, in_fill, in_default, True)
            return
        for x in n:
            if isinstance(x, list):
                walk(x, in_fill, in_default, in_loop)

    for spec in program["classes"].values():
        walk(spec["template"], False, False, False)
    walk(program["page"], False, False, False)
    return feats
