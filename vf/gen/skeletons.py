"""Skeleton catalogue for E1: the compositions the property rationales single out.  Each builder
returns a program; ``decorate`` then sprinkles random extra nodes from ProgGen into it."""
import copy

from vf.gen import program as pg


def _t(g):
    return ["text", g.t()]


def sk_default_in_foreign_context(g):
    """slot nested in the default content of an unfilled slot of a component rendered inside another
    component's template *and* inside another component's fill."""
    rng = g.rng
    a, b = rng.sample(["a", "b", "c"], 2)
    inner = [["slot", ["lit", a], {}, [_t(g), ["slot", ["lit", b], {}, [_t(g)], {}], _t(g)], {}]]
    outer = [["slot", ["lit", b], {}, [_t(g)], {}], ["comp", "c1", {}, None]]
    host = [["slot", ["lit", rng.choice([a, b, "default"])], {"default": True}, [], {}]]
    page = [
        ["comp", "c0", {}, ["fills", [["fill", ["lit", b], [_t(g)], None, None]]]],
        ["comp", "c2", {}, ["implicit", [["comp", "c1", {}, None], ["comp", "c0", {}, ["fills", [["fill", ["lit", b], [_t(g)], None, None]]]]]]],
    ]
    return {"classes": {"c0": {"template": outer, "data": {}, "inject": []}, "c1": {"template": inner, "data": {}, "inject": []}, "c2": {"template": host, "data": {}, "inject": []}}, "page": page, "page_ctx": {}}


def sk_forwarding(g):
    """fill forwarding {% fill "a" %}{% slot "a" / %}{% endfill %} through 2-4 levels"""
    rng = g.rng
    n = rng.randint(2, 4)
    name = rng.choice(["a", "b", "default"])
    classes = {}
    for i in range(n):
        if i == n - 1:
            tmpl = [_t(g), ["slot", ["lit", name], {"default": rng.random() < 0.5}, [_t(g)], {"k": ["lit", f"S{g.newsite()}"]}]]
        else:
            fwd = ["slot", ["lit", name], {}, [_t(g)] if rng.random() < 0.5 else [], {}]
            if rng.random() < 0.5:
                body = ["fills", [["fill", ["lit", name], [fwd], None, None]]]
            else:
                body = ["implicit", [fwd]]
            tmpl = [_t(g), ["comp", f"c{i + 1}", {}, body]]
        classes[f"c{i}"] = {"template": tmpl, "data": {}, "inject": []}
    page = [["comp", "c0", {}, ["fills", [["fill", ["lit", name], [_t(g)], "d", None], ]]], ["comp", "c0", {}, None]]
    page[0][3][1][0][2].append(["dataref", "d", "k"])
    return {"classes": classes, "page": page, "page_ctx": {}}


def sk_same_name_three_levels(g):
    """the same slot name filled at three nesting levels"""
    name = g.rng.choice(["a", "b", "c"])
    box = [_t(g), ["slot", ["lit", name], {}, [_t(g)], {}], _t(g)]
    classes = {"c0": {"template": copy.deepcopy(box), "data": {}, "inject": []}}
    lvl3 = ["comp", "c0", {}, ["fills", [["fill", ["lit", name], [_t(g)], None, "f"]]]]
    lvl3[3][1][0][2].append(["defaultref", "f"])
    lvl2 = ["comp", "c0", {}, ["fills", [["fill", ["lit", name], [_t(g), lvl3], None, None]]]]
    lvl1 = ["comp", "c0", {}, ["fills", [["fill", ["lit", name], [lvl2, _t(g)], None, None]]]]
    return {"classes": classes, "page": [lvl1], "page_ctx": {}}


def sk_root_chain(g):
    """component as the sole root of a component, chained"""
    n = g.rng.randint(2, 5)
    classes = {}
    for i in range(n):
        if i == n - 1:
            tmpl = [["slot", ["lit", "a"], {"default": True}, [_t(g)], {}]]
        else:
            tmpl = [["comp", f"c{i + 1}", {}, ["implicit", [["slot", ["lit", "a"], {"default": True}, [_t(g)], {}]]] if g.rng.random() < 0.6 else None]]
        classes[f"c{i}"] = {"template": tmpl, "data": {}, "inject": []}
    return {"classes": classes, "page": [["comp", "c0", {}, ["implicit", [_t(g)]]], ["comp", "c0", {}, None]], "page_ctx": {}}


def sk_slot_in_loop(g):
    """slots in loops with dynamic names, filled by looped dynamically-named fills"""
    items = g.rng.choice(["ab", "abc", "bc"])
    v, w = f"v{g.newsite()}", f"v{g.newsite()}"
    tmpl = [["for", v, items, g.newsite(), [["slot", ["var", v], {}, [_t(g)], {}], ["probe", "a"]]]]
    fills = [["for", w, g.rng.choice(["ab", "a", "c"]), g.newsite(), [["fill", ["var", w], [_t(g), ["var", w]], None, None]]]]
    return {"classes": {"c0": {"template": tmpl, "data": {}, "inject": []}}, "page": [["comp", "c0", {}, ["fills", fills]], ["comp", "c0", {}, None]], "page_ctx": {}}


def sk_default_passed_on(g):
    """the slot's original content handed on to another component: {% fill "b" default="f" %}{% component "card" %}{{ f }}
    {% endcomponent %}{% endfill %} where the slot sits in a loop and its default content reads the loop variable and
    holds a component - at page level or inside another component's template"""
    rng = g.rng
    v = f"v{g.newsite()}"
    default = [_t(g), ["var", v]]
    if rng.random() < 0.7:
        default.append(["comp", "c2", {}, None])
    owner = [["for", v, rng.choice(["ab", "abc", "a"]), g.newsite(), [["slot", ["lit", "b"], {}, default, {"k": ["lit", f"S{g.newsite()}"]}]]]]
    card = [_t(g), ["slot", ["lit", "a"], {"default": True}, [_t(g)], {}]]
    leaf = [_t(g)]
    ref = ["defaultref", "f"]
    r = rng.random()
    if r < 0.4:
        inner_body = ["implicit", [ref, _t(g)]]
    elif r < 0.8:
        inner_body = ["fills", [["fill", ["lit", "a"], [_t(g), ref], None, None]]]
    else:
        inner_body = ["implicit", [["comp", "c1", {}, ["implicit", [ref]]]]]
    fill_body = [["comp", "c1", {}, inner_body]]
    if rng.random() < 0.5:
        fill_body.append(["defaultref", "f"])
    use = ["comp", "c0", {}, ["fills", [["fill", ["lit", "b"], fill_body, "d" if rng.random() < 0.5 else None, "f"]]]]
    classes = {"c0": {"template": owner, "data": {}, "inject": []}, "c1": {"template": card, "data": {}, "inject": []}, "c2": {"template": leaf, "data": {}, "inject": []}}
    if rng.random() < 0.5:
        return {"classes": classes, "page": [use], "page_ctx": {}}
    # the same, written in the template of another component
    classes = {"c3": {"template": [_t(g), use], "data": {}, "inject": []}, **classes}
    return {"classes": {k: classes[k] for k in ("c3", "c0", "c1", "c2")}, "page": [["comp", "c3", {}, None]], "page_ctx": {}}


def sk_sibling_fills(g):
    """two fills of one component where rendering the first reaches the second (default content of slot b holds slot c):
    the slot data / default aliases of the first fill are not variables of the second"""
    owner = [["slot", ["lit", "b"], {}, [_t(g), ["slot", ["lit", "c"], {}, [_t(g)], {"k": ["lit", f"S{g.newsite()}"]}]], {"k": ["lit", f"S{g.newsite()}"]}]]
    fills = [
        ["fill", ["lit", "b"], [_t(g), ["defaultref", "g"], ["dataref", "d", "k"]], "d", "g"],
        # reads d / e without declaring them: must not see the sibling's aliases (its own data alias is e)
        ["fill", ["lit", "c"], [_t(g), ["dataref", "d", "k"], ["dataref", "e", "k"]], "e" if g.rng.random() < 0.5 else None, None],
    ]
    g.rng.shuffle(fills)
    use = ["comp", "c0", {}, ["fills", fills]]
    classes = {"c0": {"template": owner, "data": {}, "inject": []}}
    if g.rng.random() < 0.5:
        return {"classes": classes, "page": [use], "page_ctx": {}}
    return {"classes": {"c1": {"template": [_t(g), use], "data": {}, "inject": []}, "c0": classes["c0"]}, "page": [["comp", "c1", {}, None]], "page_ctx": {}}


def sk_siblings_in_wrapper(g):
    """two (or three) different components side by side - and once more nested in a fill - inside a wrapper component:
    for C10 their templates become separate extends-families that must not see each other's blocks"""
    rng = g.rng
    classes = {}
    n = rng.randint(2, 3)
    for i in range(1, n + 1):
        classes[f"c{i}"] = {"template": [_t(g), ["slot", ["lit", "a"], {"default": rng.random() < 0.5}, [_t(g)], {}], _t(g)], "data": {}, "inject": []}
    sib = []
    for i in range(1, n + 1):
        body = None if rng.random() < 0.5 else ["fills", [["fill", ["lit", "a"], [_t(g)] + ([["comp", f"c{rng.randint(1, n)}", {}, None]] if rng.random() < 0.4 else []), None, None]]]
        sib.append(["comp", f"c{i}", {}, body])
    wrapper = [_t(g)] + sib + [_t(g)]
    classes = {"c0": {"template": wrapper, "data": {}, "inject": []}, **classes}
    page = [["comp", "c0", {}, None]] if rng.random() < 0.7 else [_t(g)] + sib
    return {"classes": classes, "page": page, "page_ctx": {}}


def sk_looped_fills_shadow_outer_loop(g):
    """a component tag inside {% for v %} whose fills are produced by a loop over the SAME variable name: the fill content
    and a pass-through {% slot name=v %} inside it use the loop between tag and fill (the nearer one), never the enclosing one"""
    rng = g.rng
    v = f"v{g.newsite()}"
    outer_items = rng.choice(["xy", "ab", "ba", "c"])
    inner_items = rng.choice(["ab", "abc", "bc"])
    box = [_t(g)] + [["slot", ["lit", ch], {}, [_t(g)], {}] for ch in "abc"]
    passthrough = ["slot", ["var", v], {}, [_t(g)], {}]
    fill = ["fill", ["var", v], [_t(g), ["var", v]], None, None]
    tag = ["comp", "c1", {}, ["fills", [["for", v, inner_items, g.newsite(), [fill]]]]]
    classes = {"c1": {"template": box, "data": {}, "inject": []}}
    if rng.random() < 0.6:
        # written in the template of another component, so that the fill can pass that component's own slots through
        fill[2].append(passthrough)
        host = [_t(g), ["for", v, outer_items, g.newsite(), [tag]]]
        classes = {"c0": {"template": host, "data": {}, "inject": []}, **classes}
        use = ["comp", "c0", {}, ["fills", [["fill", ["lit", ch], [_t(g)], None, None] for ch in rng.sample("abc", rng.randint(1, 3))]]]
        return {"classes": classes, "page": [use], "page_ctx": {}}
    return {"classes": classes, "page": [["for", v, outer_items, g.newsite(), [tag]]], "page_ctx": {}}


SKELETONS = [sk_looped_fills_shadow_outer_loop, sk_siblings_in_wrapper, sk_default_in_foreign_context, sk_forwarding, sk_same_name_three_levels, sk_root_chain, sk_slot_in_loop, sk_default_passed_on, sk_sibling_fills]


def decorate(g, prog):
    """Insert random nodes (from the same generator) at random places of the skeleton."""
    rng = g.rng
    names = list(prog["classes"])
    for idx, cname in enumerate(names):
        g.cur_class = cname
        g.cur_data = prog["classes"][cname]["data"]
        if rng.random() < 0.6:
            extra = g.gen_nodes([rng.randint(1, 4)], 1, True, False, names[idx + 1 :], [])
            t = prog["classes"][cname]["template"]
            t[rng.randint(0, len(t)) : 0] = extra
    g.cur_class = None
    g.cur_data = prog["page_ctx"]
    if rng.random() < 0.6:
        for c in names:
            g.slotnames[c] = sorted(g.collect_slot_names(prog["classes"][c]["template"]))
        extra = g.gen_nodes([rng.randint(1, 5)], 1, False, False, names, [])
        prog["page"][rng.randint(0, len(prog["page"])) : 0] = extra
    return prog


def skeleton_program(rng, flavour="slots", shadow=False):
    """``shadow``: include the skeleton whose looped fills shadow an enclosing loop variable (C01 only, see ProgGen.shadow_loops)"""
    g = pg.ProgGen(rng, flavour)
    g.error_mode = False
    g.shadow_loops = shadow
    sk = rng.choice(SKELETONS if shadow else [k for k in SKELETONS if k is not sk_looped_fills_shadow_outer_loop])
    prog = decorate(g, sk(g))
    return prog, sk.__name__, g
