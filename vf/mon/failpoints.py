"""Failpoint controller: the i-th user-callback invocation of a render raises.

All user code of a generated program (get_context_data, inject, on_render_before/after, slot
functions, the harness filter and tag) calls ``tick(kind, where)``; no source edit of the library
is needed.  ``CURRENT`` is the controller the harness filter/tag report to.
"""

CURRENT = None


class MultiLine(Exception):
    pass


EXC_KINDS = ["ValueError", "KeyError-nonstr", "OSError", "MultiLine"]


def make_exc(kind):
    if kind == "ValueError":
        return ValueError("m")
    if kind == "KeyError-nonstr":
        return KeyError(7)
    if kind == "OSError":
        return OSError(2, "x")
    return MultiLine("line one\nline two\n  line three")


class Controller:
    def __init__(self):
        self.count = 0
        self.target = None
        self.exc = None
        self.log = []
        self.fired = None

    def arm(self, target, exc):
        self.count, self.target, self.exc, self.log, self.fired = 0, target, exc, [], None

    def tick(self, kind, where):
        i = self.count
        self.count += 1
        self.log.append((kind, where))
        if self.target is not None and i == self.target:
            self.fired = (kind, where)
            raise self.exc


def install_library():
    """Registers the harness filter and tag on the library's own builtin tag library."""
    from django_components.templatetags.component_tags import register as library

    def vffilter(value):
        if CURRENT is not None:
            CURRENT.tick("filter", None)
        return value

    def vftag(value):
        if CURRENT is not None:
            CURRENT.tick("tag", None)
        return value

    library.filter("vffilter", vffilter, is_safe=True)
    library.simple_tag(vftag, name="vftag")
