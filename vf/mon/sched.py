"""Controlled thread scheduler (the 'race detector' of this harness).

Tasks run in real threads but exactly one thread runs at any time.  ``sys.monitoring`` LINE events
are enabled only on the code objects of the library's shared-state modules; every such event in a
managed thread is a *yield point* at which the scheduler's decision function may hand the CPU to
another task.  A schedule is therefore a deterministic function of (yield-point counter, running
task) and replays exactly.  Monitor state is only touched by the one running thread.
"""
import sys
import threading

TOOL = 4


class Watch:
    """LINE events on all code objects of the given modules."""

    def __init__(self, modules):
        self.mon = sys.monitoring
        self.mon.use_tool_id(TOOL, "vf-sched")
        self.callback = None
        self.mon.register_callback(TOOL, self.mon.events.LINE, self._line)
        seen = set()

        def walk(code):
            if code in seen:
                return
            seen.add(code)
            self.mon.set_local_events(TOOL, code, self.mon.events.LINE)
            for c in code.co_consts:
                if hasattr(c, "co_code"):
                    walk(c)

        for m in modules:
            for obj in list(vars(m).values()):
                fn = getattr(obj, "__func__", obj)
                fn = getattr(fn, "__wrapped__", fn)
                code = getattr(fn, "__code__", None)
                if code is not None and getattr(fn, "__module__", None) == m.__name__:
                    walk(code)
                if isinstance(obj, type) and obj.__module__ == m.__name__:
                    for v in vars(obj).values():
                        v = getattr(v, "__func__", v)
                        if isinstance(v, property):
                            v = v.fget
                        c = getattr(v, "__code__", None)
                        if c is not None:
                            walk(c)
        self.ncodes = len(seen)

    def _line(self, code, lineno):
        cb = self.callback
        if cb is not None:
            cb(code, lineno)


class Stuck(Exception):
    pass


HELD = {}  # thread ident -> number of tracked library locks currently held


class TrackedRLock:
    """Drop-in RLock that tells the scheduler when a managed thread is inside one of the library's own
    critical sections.  The scheduler never pre-empts there (a switch inside a coarse lock explores
    nothing and would deadlock the one-task-at-a-time discipline), so a tracked lock is never held by a
    suspended task and acquisition never blocks."""

    def __init__(self):
        self._l = threading.RLock()

    def acquire(self, blocking=True, timeout=-1):
        ok = self._l.acquire(blocking, timeout)
        if ok:
            i = threading.get_ident()
            HELD[i] = HELD.get(i, 0) + 1
        return ok

    def release(self):
        i = threading.get_ident()
        HELD[i] = HELD.get(i, 0) - 1
        self._l.release()

    __enter__ = acquire

    def __exit__(self, *a):
        self.release()


class Run:
    """One execution of ``tasks`` (callables) under ``decide(point_no, running_tid, runnable) -> tid``."""

    def __init__(self, watch, tasks, decide, timeout=5.0):
        self.watch, self.tasks, self.decide, self.timeout = watch, tasks, decide, timeout
        n = len(tasks)
        self.sems = [threading.Semaphore(0) for _ in range(n)]
        self.main_sem = threading.Semaphore(0)
        self.done = [False] * n
        self.results = [None] * n
        self.tid_of = {}
        self.points = 0
        self.trace = []  # (point_no, tid, file:line) of every yield point
        self.switches = []  # (point_no, from, to)
        self.stuck = False
        self.points_per_task = [0] * n
        self.points_in_critical_sections = 0

    def _runnable(self):
        return [i for i, d in enumerate(self.done) if not d]

    def _line(self, code, lineno):
        ident = threading.get_ident()
        tid = self.tid_of.get(ident)
        if tid is None or self.stuck:
            return
        if HELD.get(ident, 0) > 0:
            self.points_in_critical_sections += 1
            return
        self.points += 1
        self.points_per_task[tid] += 1
        where = code.co_filename.rsplit("/", 2)[-1] + ":" + str(lineno)
        if len(self.trace) < 20000:
            self.trace.append((self.points, tid, where))
        nxt = self.decide(self.points, tid, self._runnable(), where)
        if nxt != tid and not self.done[nxt]:
            self.switches.append((self.points, tid, nxt, where))
            self.sems[nxt].release()
            if not self.sems[tid].acquire(timeout=self.timeout):
                self.stuck = True
                raise Stuck(f"task {tid} not rescheduled")

    def _body(self, tid):
        self.tid_of[threading.get_ident()] = tid
        if not self.sems[tid].acquire(timeout=self.timeout):
            self.stuck = True
            return
        try:
            self.results[tid] = ("ok", self.tasks[tid]())
        except Stuck:
            self.results[tid] = ("stuck", None)
        except BaseException as e:  # noqa: BLE001
            import traceback

            tb = traceback.extract_tb(e.__traceback__)
            site = None
            for fr in reversed(tb):
                if "django_components" in fr.filename:
                    site = fr.filename.rsplit("/", 2)[-1] + ":" + str(fr.lineno) + " " + (fr.line or "")[:60]
                    break
            self.results[tid] = ("exc", type(e).__name__, str(e)[:200], site)
        finally:
            self.done[tid] = True
            rest = self._runnable()
            if rest and not self.stuck:
                nxt = self.decide(self.points, tid, rest, "<task-end>")
                if nxt not in rest:
                    nxt = rest[0]
                self.sems[nxt].release()
            else:
                self.main_sem.release()

    def go(self, first=0):
        threads = [threading.Thread(target=self._body, args=(i,), daemon=True) for i in range(len(self.tasks))]
        self.watch.callback = self._line
        try:
            for t in threads:
                t.start()
            self.sems[first].release()
            if not self.main_sem.acquire(timeout=self.timeout * 2):
                self.stuck = True
            for t in threads:
                t.join(timeout=2.0)
        finally:
            self.watch.callback = None
        return self.results


# ---------------------------------------------------------------------------------------
# decision functions
def run_to_completion(order):
    """No pre-emption: tasks run one after another in the given order."""

    def decide(point, tid, runnable, where):
        if tid in runnable:
            return tid
        for t in order:
            if t in runnable:
                return t
        return runnable[0]

    return decide


def preempt_at(points, order):
    """Pre-empt the running task when the global yield-point counter hits one of ``points`` (a dict
    point_no -> task to switch to); otherwise run to completion in ``order``."""

    def decide(point, tid, runnable, where):
        if where != "<task-end>" and point in points and points[point] in runnable:
            return points[point]
        if tid in runnable:
            return tid
        for t in order:
            if t in runnable:
                return t
        return runnable[0]

    return decide


def pct(rng, ntasks, depth, horizon):
    """PCT-style: random priorities, ``depth`` priority change points within ``horizon`` yield points."""
    prio = list(range(ntasks))
    rng.shuffle(prio)
    changes = sorted(rng.sample(range(1, max(horizon, depth + 1)), depth))
    state = {"prio": prio, "changes": changes, "low": -1}

    def decide(point, tid, runnable, where):
        while state["changes"] and point >= state["changes"][0]:
            state["changes"].pop(0)
            # demote the running task below everything
            state["prio"][tid] = state["low"]
            state["low"] -= 1
        return max(runnable, key=lambda t: state["prio"][t])

    return decide


def preempt_sites(plan, order, is_site):
    """Context switches only at *shared-state sites*: ``plan`` is a list of (task, n, switch_to) - when ``task`` reaches
    its n-th yield point for which ``is_site(where)`` holds, the CPU goes to ``switch_to``; plan entries are consumed in
    order.  Everything else runs to completion in ``order``.  Bounded search in the classical sense: pre-emptions are
    placed at accesses to shared state, not at arbitrary lines."""
    plan = list(plan)
    visits = {}

    def decide(point, tid, runnable, where):
        if where != "<task-end>" and is_site(where):
            visits[tid] = visits.get(tid, 0) + 1
            if plan and plan[0][0] == tid and plan[0][1] == visits[tid]:
                _, _, to = plan.pop(0)
                if to in runnable:
                    return to
        if tid in runnable:
            return tid
        for t in order:
            if t in runnable:
                return t
        return runnable[0]

    return decide
