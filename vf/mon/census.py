"""Reflection-based container census: the 'leak sanitizer' of this harness.

Every dict / list / set / deque (and WeakValueDictionary etc.) that is a module global of any
imported ``django_components.*`` module is found by reflection (not by name) and its size recorded;
LRU-like objects with a ``cache`` dict attribute count through that dict.  A census is a mapping
"module.attr" -> size.  Bounded caches (template LRU, media cache, class maps, node-subclass table)
are reported separately by the caller's allow-list of *growth that stops*, never ignored wholesale.
"""
import collections
import sys
import weakref

CONTAINERS = (dict, list, set, collections.deque, weakref.WeakValueDictionary, weakref.WeakKeyDictionary, weakref.WeakSet)


def snapshot():
    out = {}
    for name, mod in list(sys.modules.items()):
        if not name.startswith("django_components") or mod is None:
            continue
        for attr, val in list(vars(mod).items()):
            if attr.startswith("__"):
                continue
            if isinstance(val, CONTAINERS):
                # only containers *defined* in this module (skip re-imports of the same object under another name
                # by keying on id)
                out[f"{name}.{attr}"] = (id(val), _size(val))
            elif hasattr(val, "cache") and isinstance(getattr(val, "cache", None), dict) and type(val).__module__.startswith("django_components"):
                out[f"{name}.{attr}.cache"] = (id(val.cache), len(val.cache))
    # de-duplicate aliases (from x import container)
    seen = {}
    res = {}
    for key in sorted(out):
        i, n = out[key]
        if i in seen:
            continue
        seen[i] = key
        res[key] = n
    return res


def _size(v):
    try:
        return len(v)
    except Exception:  # noqa: BLE001
        return -1


def diff(before, after, ignore=()):
    """-> {key: (before, after)} for every container whose size changed (or that appeared)."""
    out = {}
    for k in set(before) | set(after):
        if any(k.endswith(i) for i in ignore):
            continue
        a, b = before.get(k, 0), after.get(k, 0)
        if a != b:
            out[k] = (a, b)
    return out
