"""Shared helpers for C04 / C19: decorate E1 programs with JS/CSS/Media, parse delivered HTML."""
import base64
import json
import re
from html.parser import HTMLParser

MEDIA_JS = ["m1.js", "m2.js", "shared.js", "sub/m3.js"]
MEDIA_CSS = ["m1.css", "shared.css", "m2.css"]
NAME_POOLS = ["ascii", "ascii", "nonascii", "dashed", "dotted", "dotted-hex-tail", "underscored-hex"]


def pyname(kind, prefix, cname):
    base = f"{prefix.capitalize()}{cname}"
    if kind == "nonascii":
        return "Café" + base
    if kind == "dashed":
        return "my-comp-" + base
    if kind == "dotted":
        return "my.comp." + base
    if kind == "dotted-hex-tail":
        # last segment made of hex digits only (looks like a hash to anything that guesses by shape); unique per class
        return f"ui.{base}.{sum(map(ord, base)) % 4096:03x}"
    if kind == "underscored-hex":
        return base + "_c0ffee"
    return base


def add_assets(prog, rng, name_pools=NAME_POOLS):
    """Mutates prog['classes']: random subsets of js / css / Media (+ inheritance, dict css)."""
    names = list(prog["classes"])
    for i, cname in enumerate(names):
        spec = prog["classes"][cname]
        # the text must arrive verbatim: backslash sequences (regex-replacement look-alikes), non-ASCII, quotes, & and <
        if rng.random() < 0.6:
            spec["js"] = f"/*js:{cname}*/console.log('{cname}');" + rng.choice(["", "", ' var s = "a\\nb \\d \\1 \\g<0> \\\\";', " // \u2192 \u00e9 & < >", " if (1 < 2 && 3 > 2) {}"])
        if rng.random() < 0.5:
            spec["css"] = f"/*css:{cname}*/.{cname} {{ color: red; }}" + rng.choice(["", "", ' .i::before { content: "\\f101 \\201C \\\\"; }', " /* \u65e5\u672c & > */", " a > b { }"])
        if rng.random() < 0.1:
            spec["js"] = "   \n "  # blank: must not be emitted
        if rng.random() < 0.45:
            m = {}
            if rng.random() < 0.7:
                js = rng.sample(MEDIA_JS, rng.randint(1, 2))
                m["js"] = js if rng.random() < 0.8 else js[0]
            if rng.random() < 0.7:
                css = rng.sample(MEDIA_CSS, rng.randint(1, 2))
                r = rng.random()
                m["css"] = css if r < 0.5 else css[0] if r < 0.65 else {"all": css[:1], "print": css[1:] or [MEDIA_CSS[0]]}
            if m:
                spec["media"] = m
        if i > 0 and rng.random() < 0.3:
            spec["base"] = rng.choice(names[:i])
            if i > 1 and rng.random() < 0.5:
                # multiple inheritance: class C(A, B) - only when Python can linearise it
                b2 = rng.choice(names[:i])
                if b2 != spec["base"]:
                    spec["base2"] = b2
                    try:
                        py_mro(prog["classes"], cname)
                    except TypeError:
                        del spec["base2"]
        if i > 0 and spec.get("media") is not None and rng.random() < 0.3:
            # Media.extend: no base at all, or an explicit list of component classes (need not be bases)
            spec["media"]["extend"] = False if rng.random() < 0.4 else rng.sample(names[:i], rng.randint(1, min(2, i)))
        spec["namekind"] = rng.choice(name_pools)
    return prog


def direct_bases(spec):
    return [b for b in (spec.get("base"), spec.get("base2")) if b]


def py_mro(classes, cname):
    """Python's own linearisation of the generated hierarchy (dummy classes; TypeError if there is none)."""
    made = {}

    def mk(c):
        if c not in made:
            made[c] = type(c, tuple(mk(b) for b in direct_bases(classes[c])) or (object,), {})
        return made[c]

    return [k.__name__ for k in mk(cname).__mro__ if k is not object]


def own_media(spec):
    js, css = [], []
    m = spec.get("media") or {}
    j = m.get("js")
    if isinstance(j, str):
        js = [j]
    elif j:
        js = list(j)
    c = m.get("css")
    if isinstance(c, str):
        css = [c]
    elif isinstance(c, (list, tuple)):
        css = list(c)
    elif isinstance(c, dict):
        for v in c.values():
            css += [v] if isinstance(v, str) else list(v)
    return js, css


def expected_assets(prog, rendered_classes):
    """-> dict(inline_js [tokens in order], inline_css [...], media_js set, media_css set)"""
    classes = prog["classes"]

    def inherited(cname, attr):
        # js/css pair rule: nearest class in the MRO defining it
        for cur in py_mro(classes, cname):
            if classes[cur].get(attr) is not None:
                return classes[cur][attr]
        return None

    def media_of(cname):
        # own Media + the Media of the bases selected by Media.extend (True: the direct bases, False: none, list: those classes)
        js, css = own_media(classes[cname])
        ext = (classes[cname].get("media") or {}).get("extend", True)
        selected = direct_bases(classes[cname]) if ext is True else [] if ext is False else list(ext)
        for b in selected:
            j, c = media_of(b)
            js += j
            css += c
        return js, css

    inline_js, inline_css, mjs, mcss = [], [], set(), set()
    owners = {}
    for cname in rendered_classes:
        js = inherited(cname, "js")
        css = inherited(cname, "css")
        if js and js.strip():
            inline_js.append((cname, js.strip()))
        if css and css.strip():
            inline_css.append((cname, css.strip()))
        j, c = media_of(cname)
        mjs |= {"/static/" + x for x in j}
        mcss |= {"/static/" + x for x in c}
    return {"inline_js": inline_js, "inline_css": inline_css, "media_js": mjs, "media_css": mcss}


class Doc(HTMLParser):
    """Collects scripts/styles/links of a delivered document."""

    def __init__(self):
        super().__init__(convert_charrefs=True)
        self.inline_js, self.inline_css, self.js_src, self.css_href, self.json_blobs = [], [], [], [], []
        self._cur = None
        self.other_tags = []

    def handle_starttag(self, tag, attrs):
        a = dict(attrs)
        if tag == "script":
            if a.get("type") == "application/json" and "data-djc" in a:
                self._cur = ("json", [])
            elif "src" in a:
                self.js_src.append(a["src"])
                self._cur = ("skip", [])
            else:
                self._cur = ("js", [])
        elif tag == "style":
            self._cur = ("css", [])
        elif tag == "link" and a.get("href"):
            self.css_href.append(a["href"])
        else:
            self.other_tags.append(tag)

    def handle_endtag(self, tag):
        if self._cur and tag in ("script", "style"):
            kind, buf = self._cur
            text = "".join(buf)
            if kind == "js":
                self.inline_js.append(text)
            elif kind == "css":
                self.inline_css.append(text)
            elif kind == "json":
                self.json_blobs.append(text)
            self._cur = None

    def handle_data(self, data):
        if self._cur:
            self._cur[1].append(data)


def parse_doc(html):
    d = Doc()
    d.feed(html)
    d.close()
    return d


def decode_manager_json(blob):
    data = json.loads(blob)
    return {k: [base64.b64decode(x).decode() for x in v] for k, v in data.items()}


SRC = re.compile(r'src="([^"]+)"')
HREF = re.compile(r'href="([^"]+)"')
LEFTOVERS = re.compile(r"_RENDERED|djc-render-id|CSS_PLACEHOLDER|JS_PLACEHOLDER")
