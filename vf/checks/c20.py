"""C20 - autodiscovery selects exactly the public modules, with right import paths.

Reference walk (os.walk) with the statement's rule: a file is selected iff it has the requested
suffix, no part of its path relative to the component directory starts with '_' (except a file
named __init__.py) and no part is hidden ('.'-prefixed); each selected file appears once, paired
with the dotted path built from its parts relative to the project root (COMPONENTS.dirs /
STATICFILES_DIRS) or prefixed with the app's package name (app_dirs), '.__init__' stripped.  For
paths made of identifiers the dotted path is additionally resolved with importlib: its origin must
be the file.
"""
import importlib
import importlib.util
import os
import random
import shutil
import sys
import tempfile
from pathlib import Path

PROP = "C20"
LEVEL = "exploration"
RULE = (
    "temp project trees: 1-3 component dirs under BASE_DIR (half of the multi-dir cases with a sibling named <other dir>_extra / <other dir>x) and 0-2 generated apps with 1-2 app_dirs, each with 4-20 files drawn "
    "from public / underscore- / dot-prefixed names at every level, __init__.py, non-.py files, dotted names, a directory named like "
    "a module; configured through COMPONENTS.dirs, legacy STATICFILES_DIRS (plain and tuple form) and app_dirs; suffix in {.py,.js,.css,"
    ".txt,None}; distinct by (tree, configuration, suffix); non-trivial = at least one selected and one rejected path"
)
ASSUMPTIONS = [
    "component directories lie under BASE_DIR and do not overlap (DESIGN.md §4)",
    "file names with consecutive dots or a dot right before the suffix are not generated (the implementation documents dropping them)",
]

NAMES = ["mod.py", "a.py", "_priv.py", "__init__.py", ".hidden.py", "x.js", "style.css", "notes.txt", "a.b.py", "UPPER.PY", "noext", "b.pyc", "c.py.bak", "é.py", "my-mod.py", "_x.js", "__main__.py", "z_.py", "py"]
DIRS = ["", "", "sub", "sub/deep", "_private", "_private/inner", "sub/_hidden_pkg", ".git", ".git/hooks", "pkg", "with.dot", "__pycache__", "dir.py", "x.js"]
SUFFIXES = [".py", ".py", ".py", ".js", ".css", ".txt", None]


class Env:
    def __init__(self):
        from vf import boot

        boot.boot()
        from django.test import override_settings

        from django_components import get_component_files

        self.override_settings = override_settings
        self.get_component_files = get_component_files
        self.tmp = tempfile.mkdtemp(prefix="vf-c20-")
        self.n = 0

    def cleanup(self):
        shutil.rmtree(self.tmp, ignore_errors=True)


def gen_files(rng, lo=4, hi=20):
    files = set()
    for _ in range(rng.randint(lo, hi)):
        d = rng.choice(DIRS)
        f = rng.choice(NAMES)
        files.add((d + "/" + f) if d else f)
    dirs = set()
    for p in files:
        d = os.path.dirname(p)
        while d:
            dirs.add(d)
            d = os.path.dirname(d)
    return sorted(p for p in files if p not in dirs)


def gen_case(rng, idx):
    how = rng.choice(["dirs", "dirs", "staticfiles", "staticfiles-tuple", "none"])
    ndirs = rng.choice([1, 1, 2, 2, 3]) if how != "none" else 0
    comp_dirs = [{"name": f"comps{idx}_{i}", "nested": rng.random() < 0.3, "files": gen_files(rng)} for i in range(ndirs)]
    if ndirs >= 2 and rng.random() < 0.5:
        # sibling directories whose path merely STARTS with another configured path (comps/ and comps_extra/): not nested,
        # not overlapping - a character-wise prefix test would take one for a sub-directory of the other
        j = rng.randrange(1, ndirs)
        comp_dirs[j]["name"] = comp_dirs[0]["name"] + rng.choice(["_extra", "x", "2", "_"])
        comp_dirs[j]["nested"] = comp_dirs[0]["nested"]
    apps = []
    for a in range(rng.choice([0, 0, 1, 2])):
        app_dirs = rng.sample(["components", "ui", "ui_kit"], rng.choice([1, 1, 2, 3]))
        apps.append({"name": f"c20app{idx}_{a}", "dirs": {d: gen_files(rng, 2, 10) for d in app_dirs}, "other": gen_files(rng, 0, 3)})
    return {"how": how, "comp_dirs": comp_dirs, "apps": apps, "suffix": rng.choice(SUFFIXES), "app_dirs_setting": rng.choice([["components", "ui"], ["components"], ["components", "ui", "ui_kit"], ["ui_kit", "ui"]])}


def selected(rel, suffix):
    parts = rel.split("/")
    name = parts[-1]
    if any(p.startswith("_") or p.startswith(".") for p in parts[:-1]):
        return False
    if name.startswith("."):
        return False
    if name.startswith("_") and name != "__init__.py":
        return False
    if suffix is not None and not name.endswith(suffix):
        return False
    return True


def dot_path(prefix_parts, rel):
    parts = list(prefix_parts) + rel.split("/")
    last = parts[-1]
    stem = last.rsplit(".", 1)[0] if "." in last and not last.startswith(".") else last
    parts[-1] = stem
    mod = ".".join(parts)
    if mod.endswith(".__init__"):
        mod = mod[:-9]
    return mod


def write_tree(root, files):
    os.makedirs(root, exist_ok=True)
    for rel in files:
        p = os.path.join(root, rel)
        os.makedirs(os.path.dirname(p), exist_ok=True)
        with open(p, "w") as f:
            f.write("# " + rel + "\n")


def run_case(env, rec, case):
    env.n += 1
    proj = os.path.realpath(os.path.join(env.tmp, f"proj{env.n}"))
    os.makedirs(proj)
    expected = []  # (filepath, dot_path)
    comp_paths = []
    for cd in case["comp_dirs"]:
        parts = (["nest", cd["name"]] if cd["nested"] else [cd["name"]])
        root = os.path.join(proj, *parts)
        write_tree(root, cd["files"])
        comp_paths.append(root)
        for rel in cd["files"]:
            if selected(rel, case["suffix"]):
                expected.append((os.path.join(root, rel), dot_path(parts, rel)))
    app_names = []
    for app in case["apps"]:
        aroot = os.path.join(proj, app["name"])
        os.makedirs(aroot)
        with open(os.path.join(aroot, "__init__.py"), "w") as f:
            f.write("")
        for d, files in app["dirs"].items():
            write_tree(os.path.join(aroot, d), files)
            if d in case["app_dirs_setting"]:
                for rel in files:
                    if selected(rel, case["suffix"]):
                        expected.append((os.path.join(aroot, d, rel), dot_path([app["name"], d], rel)))
        write_tree(os.path.join(aroot, "other"), app["other"])
        app_names.append(app["name"])
    comp = {"autodiscover": False, "app_dirs": case["app_dirs_setting"]}
    extra = {"BASE_DIR": Path(proj), "INSTALLED_APPS": ["django_components", *app_names]}
    if case["how"] == "dirs":
        comp["dirs"] = [Path(p) if i % 2 else p for i, p in enumerate(comp_paths)]
    elif case["how"] == "staticfiles":
        extra["STATICFILES_DIRS"] = list(comp_paths)
    elif case["how"] == "staticfiles-tuple":
        extra["STATICFILES_DIRS"] = [("pfx%d" % i, p) if i % 2 == 0 else p for i, p in enumerate(comp_paths)]
    else:
        comp["dirs"] = []
    sys.path.insert(0, proj)
    importlib.invalidate_caches()
    try:
        with env.override_settings(COMPONENTS=comp, **extra):
            try:
                got = env.get_component_files(case["suffix"])
            except Exception as e:  # noqa: BLE001
                rec.violation("get_component_files-raised-" + type(e).__name__, case, {"what": str(e)[:300]})
                return None
            rec.observe("trees-compared")
            # the library's own app dir (django_components/components) is part of every result
            ours = [(str(e.filepath), e.dot_path) for e in got if not str(e.filepath).startswith(os.path.dirname(importlib.import_module("django_components").__file__))]
            g = sorted(ours)
            x = sorted(expected)
            if g != x:
                gs, xs = set(g), set(x)
                extra_e = sorted(gs - xs)[:4]
                missing = sorted(xs - gs)[:4]
                dup = [e for e in gs if g.count(e) > 1][:3]
                klass = "returned-directory" if any(os.path.isdir(p) for p, _ in extra_e) else "wrong-selection" if ({p for p, _ in g} != {p for p, _ in x}) else "duplicate-entry" if dup and not extra_e and not missing else "wrong-dot-path"
                rec.violation(klass, case, {"what": f"unexpected {[(os.path.relpath(p, proj), d) for p, d in extra_e]} missing {[(os.path.relpath(p, proj), d) for p, d in missing]} duplicates {[(os.path.relpath(p, proj), d) for p, d in dup]}"})
            # importability of identifier-only paths
            if case["suffix"] == ".py":
                for fp, dp in ours:
                    rel_parts = os.path.relpath(fp, proj).split(os.sep)
                    rel_parts[-1] = rel_parts[-1][:-3]  # strip ".py"
                    if rel_parts[-1] == "__init__":
                        rel_parts.pop()
                    if not all(part.isidentifier() for part in rel_parts):
                        rec.count("non_identifier_dot_paths")
                        continue
                    if not os.path.isfile(fp):
                        continue
                    try:
                        spec = importlib.util.find_spec(dp)
                    except Exception as e:  # noqa: BLE001
                        spec = None
                        rec.note(f"find_spec({dp}) raised {type(e).__name__}: {e}")
                    rec.observe("import-paths-resolved")
                    origin = getattr(spec, "origin", None) if spec else None
                    if origin is None or os.path.realpath(origin) != os.path.realpath(fp):
                        rec.violation("dot-path-does-not-import-the-file", case, {"what": f"{dp} -> {origin}, file {os.path.relpath(fp, proj)}"})
            n_sel = len(expected)
            n_all = sum(len(cd["files"]) for cd in case["comp_dirs"]) + sum(len(f) for a in case["apps"] for f in a["dirs"].values())
            return n_sel, n_all - n_sel
    finally:
        sys.path.remove(proj)
        for m in [m for m in sys.modules if m.startswith(("comps", "c20app", "nest"))]:
            del sys.modules[m]
        importlib.invalidate_caches()
        shutil.rmtree(proj, ignore_errors=True)


def plan(tier, seed):
    n = 3000 if tier == "quick" else 100000
    nshard = 15 if tier == "quick" else 32
    return [{"name": f"gen_{i:02d}", "n": n // nshard, "idx": i} for i in range(nshard)]


def run_shard(spec, rec):
    env = Env()
    rec.require("trees-compared", "import-paths-resolved")
    rng = random.Random(f"{spec['seed']}-c20-{spec['idx']}")
    try:
        for i in range(spec["n"]):
            case = gen_case(rng, spec["idx"] * 1000000 + i)
            r = run_case(env, rec, case)
            nt = bool(r and r[0] and r[1])
            rec.case(case, nontrivial=nt)
            rec.count("config:" + case["how"])
            rec.count("suffix:" + str(case["suffix"]))
            if case["apps"]:
                rec.count("cases_with_apps")
            if nt and rec.want_sample() and i % 41 == 0:
                rec.sample({"how": case["how"], "suffix": case["suffix"], "comp_dirs": [{"name": c["name"], "files": c["files"][:8]} for c in case["comp_dirs"]], "apps": [a["name"] for a in case["apps"]]})
    finally:
        env.cleanup()


def replay(case, rec):
    env = Env()
    rec.case(("replay", 1))
    rec.case(("replay", 2))
    try:
        run_case(env, rec, case)
    finally:
        env.cleanup()
