"""C01 - each slot renders the fill addressed to it, else its own default content.

Reference-model monitor: generated component programs (E1) are rendered by the real library and the
output - a string of unambiguous tokens - is compared with the reference interpreter's expectation
(or expected exception class), under both context behaviours and in three render routes: plain
{% component %} tags, the same page with every tag replaced by the dynamic component, and the
page's top-level component rendered through Component.render(slots=...).  A logical divergence
guard (component instantiations > 20 x predicted + 50) turns a non-terminating render into a
deterministic violation.
"""
import random

from vf import e1run
from vf.gen import program as pg
from vf.gen import shrink as shrinker
from vf.gen import skeletons

PROP = "C01"
LEVEL = "exploration"
RULE = (
    "component programs: 2-5 generated classes whose templates mix text, if/for, slots (named, default, required, repeated, in "
    "loops, nested in slot defaults, inside fills, with slot data) and component tags with no body / implicit body / named, "
    "conditional, looped and dynamically named fills (with data/default aliases); half free random growth with per-program feature "
    "weights, half decorated skeletons from a catalogue of hard compositions; ~8% deliberately erroneous; each under django and "
    "isolated mode x {tag, dynamic} + a Component.render(slots=) probe; distinct by program AST; non-trivial = at least one slot "
    "rendered with a fill and one with its default content"
)
ASSUMPTIONS = [
    "slot tags occur only in component templates (incl. fill bodies written there); is_filled probes only in component templates",
    "a Fills body captures at least one fill (otherwise the library treats the body as an implicit default: unspecified, skipped)",
    "loop variables have unique names (scoping is C03's subject), except that the loop producing looped fills may re-use the name of a loop around the component tag - inside the fill the nearer loop must win",
    "when independent components of one program would raise different error classes, the statement does not say which surfaces first (component templates render in a deferred order): any error class that some order meets first is accepted",
]


def gen_program(rng):
    if rng.random() < 0.5:
        prog, skname, g = skeletons.skeleton_program(rng, shadow=True)
        return prog, skname
    g = pg.ProgGen(rng, "slots", pyrender=True)
    g.shadow_loops = True
    return g.program(), "free"


def compare(ref, got):
    """None if the observable equals the expectation, else (class, what)."""
    if ref[0] == "ok":
        if got[0] == "ok":
            if got[1] == ref[1]:
                return None
            return ("wrong-output", f"expected {ref[1]!r} got {got[1]!r}")
        if got[0] == "div":
            return ("render-does-not-terminate", got[1])
        return ("unexpected-exception", f"{got[1]}: {got[2]}  (expected output {ref[1]!r})")
    if got[0] == "exc" and (got[1] == ref[1] or got[1] in getattr(ref[-1], "error_kinds", ())):
        return None
    if got[0] == "div":
        return ("render-does-not-terminate", got[1])
    return ("missing-or-wrong-error", f"expected {ref[1]} ({ref[2]}), got {got[:2]!r}")


class Env(e1run.E1Env):
    pass


K_SHADOW = "C01-looped-fill-name-hidden-by-same-named-binding-of-the-enclosing-template"
SW_SHADOW = "lexical_captured_layer_below_outer_template"


def run_witnesses(spec, rec):
    """Stored witness of the listed finding: KNOWN-FINDING while the defect is there, silent once it is repaired."""
    env = Env()
    for f in spec["findings"]:
        w = f["witness"]
        prog, mode = w["program"], w["mode"]
        rec.case(("witness", f["id"]), nontrivial=False)
        ref = e1run.reference(prog, mode)
        built = env.build(prog)
        try:
            got = env.render(built, mode, "tag", limit=500)
        finally:
            built.dispose()
        rec.observe("renders-compared")
        case = {"program": prog, "mode": mode, "variant": "tag", "witness_of": f["id"]}
        if ref[0] == "ok" and got[0] == "ok" and got[1] == ref[1]:
            continue
        if got[0] == "ok" and got[1] == w["observed"]:
            if not rec.known_finding(f["id"], case, {"what": f"expected {ref[1]!r} observed {got[1]!r}"}):
                rec.violation("wrong-output", case, {"what": f"expected {ref[1]!r} observed {got[1]!r}"})
        else:
            rec.violation("wrong-output", case, {"what": f"witness of {f['id']}: expected {ref[1]!r}, documented defect output {w['observed']!r}, observed {got[:2]!r}"})


def check_program(env, rec, prog, origin, seedinfo, do_shrink=True):
    results = {}
    feats = None
    nontrivial = False
    for mode in ("django", "isolated"):
        ref = e1run.reference(prog, mode)
        if ref[0] == "unspec":
            rec.inconc("unspecified:" + ref[1][:40])
            return False
        it = ref[-1]
        if ref[0] == "ok":
            for k, v in it.events.items():
                if k.startswith("max"):
                    rec.maxi("max:" + k, v)
                else:
                    rec.count("ev:" + k, v)
            if it.events["slot_filled"] and it.events["slot_default"]:
                nontrivial = True
        else:
            rec.count("expected_error_programs")
        limit = 20 * len(it.instances) + 50
        built = env.build(prog)
        try:
            for variant in ("tag", "dynamic", "dynamic-all"):
                got = env.render(built, mode, variant, limit=limit * (1 if variant == "tag" else 2))
                rec.observe("renders-compared")
                prob = compare(ref, got)
                if prob:
                    case = {"program": prog, "mode": mode, "variant": variant, "origin": origin, "seed": seedinfo}
                    # exact defect model of the listed finding (lexically scoped fill written inside a component template:
                    # a loop variable between tag and fill is hidden by a same-named binding of that template)
                    if got[0] == "ok" and K_SHADOW in rec.known_ids:
                        alt = e1run.reference(prog, mode, switches=(SW_SHADOW,))
                        if alt[0] == "ok" and alt[1] == got[1] and rec.known_finding(K_SHADOW, case, {"what": prob[1][:300]}):
                            continue
                    if do_shrink:
                        small = shrink_case(env, prog, mode, variant, prob[0])
                        case["shrunk"] = small
                    rec.violation(prob[0], case, {"what": prob[1][:600], "page": built.page_src[:600], "templates": {c: cls.template[:400] for c, cls in built.classes.items()}})
                    return nontrivial
        finally:
            built.dispose()
    return nontrivial


def outcome_class(env, prog, mode, variant):
    ref = e1run.reference(prog, mode)
    if ref[0] == "unspec":
        return "unspec"
    built = env.build(prog)
    try:
        got = env.render(built, mode, variant, limit=20 * len(ref[-1].instances) + 50)
    finally:
        built.dispose()
    prob = compare(ref, got)
    return prob[0] if prob else None


def shrink_case(env, prog, mode, variant, klass):
    try:
        return shrinker.shrink(prog, lambda p: outcome_class(env, p, mode, variant) == klass, 300)
    except Exception:  # noqa: BLE001
        return None


# ---------------------------------------------------------------------------------------
# Component.render(slots=...) route
def python_route(env, rec, prog, rng, seedinfo):
    """The page's top-level component through Component.render(args, kwargs, slots) must equal the tag."""
    from django.utils.safestring import mark_safe

    cname = next(iter(prog["classes"]))
    names = rng.sample(pg.SLOT_NAMES, rng.randint(0, 3))
    fills = {n: f"py{rng.randrange(1000)}" for n in names}
    page = [["comp", cname, {}, ["fills", [["fill", ["lit", n], [["text", t]], None, None] for n, t in fills.items()]] if fills else None]]
    prog2 = {"classes": prog["classes"], "page": page, "page_ctx": {}}
    # slot functions that use what they are handed: the slot's data and its default content (SlotRef)
    page3 = [["comp", cname, {}, ["fills", [["fill", ["lit", n], [["text", t], ["defaultref", "g"], ["dataref", "d", "k"]], "d", "g"] for n, t in fills.items()]] if fills else None]]
    prog3 = {"classes": prog["classes"], "page": page3, "page_ctx": {}}
    for mode in ("django", "isolated"):
        ref2 = e1run.reference(prog2, mode)
        if ref2[0] == "unspec":
            return
        ref3 = e1run.reference(prog3, mode) if fills else ("unspec", "")
        built = env.build(prog2)
        try:
            for form in ("str", "func", "func-using-data-and-default"):
                ref = ref2
                if form == "str":
                    slots = {n: mark_safe(f"[{t}]") for n, t in fills.items()}
                elif form == "func":
                    slots = {n: (lambda ctx, data, ref_, t=t: mark_safe(f"[{t}]")) for n, t in fills.items()}
                else:
                    if ref3[0] == "unspec":
                        continue
                    ref = ref3
                    slots = {n: (lambda ctx, data, ref_, t=t: mark_safe(f"[{t}]" + str(ref_) + f"[d.k={data.get('k', '')}]")) for n, t in fills.items()}
                env.inst_count = 0
                env.inst_limit = 20 * len(ref[-1].instances) + 50
                try:
                    with env.override_settings(COMPONENTS={"context_behavior": mode, "autodiscover": False}):
                        raw = built.classes[cname].render(slots=slots, render_dependencies=False)
                    got = ("ok", e1run.normalise(raw), raw)
                except e1run.Divergence as e:
                    got = ("div", str(e), "")
                except Exception as e:  # noqa: BLE001
                    got = ("exc", type(e).__name__, str(e)[:300])
                finally:
                    env.inst_limit = None
                rec.observe("python-route-renders")
                prob = compare(ref, got)
                if prob:
                    pcase = {"program": prog3 if ref is ref3 else prog2, "mode": mode, "variant": "python-" + form, "slots": fills, "seed": seedinfo}
                    if got[0] == "ok" and K_SHADOW in rec.known_ids:
                        alt = e1run.reference(pcase["program"], mode, switches=(SW_SHADOW,))
                        if alt[0] == "ok" and alt[1] == got[1] and rec.known_finding(K_SHADOW, pcase, {"what": prob[1][:300]}):
                            continue
                    rec.violation("python-route-" + prob[0], pcase, {"what": prob[1][:600]})
                    return
        finally:
            built.dispose()


def plan(tier, seed):
    n = 9000 if tier == "quick" else 160000
    nshard = 15 if tier == "quick" else 32
    return [{"name": f"gen_{i:02d}", "n": n // nshard, "idx": i} for i in range(nshard)]


def run_shard(spec, rec):
    env = Env()
    rec.require("renders-compared", "python-route-renders")
    rng = random.Random(f"{spec['seed']}-c01-{spec['idx']}")
    for i in range(spec["n"]):
        # programs whose expectation the statement leaves open are re-drawn (and counted)
        for attempt in range(10):
            prng = random.Random(rng.random())
            prog, origin = gen_program(prng)
            if all(e1run.reference(prog, m)[0] != "unspec" for m in ("django", "isolated")):
                break
            rec.count("regenerated_unspecified")
        seedinfo = [spec["seed"], spec["idx"], i]
        nt = check_program(env, rec, prog, origin, seedinfo)
        rec.case(prog, nontrivial=nt)
        rec.count("origin:" + origin)
        for f in pg.digest_features(prog):
            rec.count("feature:" + f)
        if i % 3 == 0:
            python_route(env, rec, prog, prng, seedinfo)
        if nt and rec.want_sample() and i % 37 == 0:
            b = pg.Built(prog, "sample")
            rec.sample({"origin": origin, "page": b.page_src[:500], "templates": {c: cls.template[:300] for c, cls in b.classes.items()}})
            b.dispose()


def replay(case, rec):
    env = Env()
    rec.case(("replay", 1))
    rec.case(("replay", 2))
    rec.observe("python-route-renders")
    prog = case["program"]
    if case["variant"].startswith("python"):
        from django.utils.safestring import mark_safe

        ref = e1run.reference(prog, case["mode"])
        built = env.build(prog)
        cname = next(iter(prog["classes"]))
        if case["variant"] == "python-func-using-data-and-default":
            slots = {n: (lambda ctx, data, ref_, t=t: mark_safe(f"[{t}]" + str(ref_) + f"[d.k={data.get('k', '')}]")) for n, t in case["slots"].items()}
        elif case["variant"] == "python-func":
            slots = {n: (lambda ctx, data, ref_, t=t: mark_safe(f"[{t}]")) for n, t in case["slots"].items()}
        else:
            slots = {n: mark_safe(f"[{t}]") for n, t in case["slots"].items()}
        with env.override_settings(COMPONENTS={"context_behavior": case["mode"], "autodiscover": False}):
            try:
                raw = built.classes[cname].render(slots=slots, render_dependencies=False)
                got = ("ok", e1run.normalise(raw), raw)
            except Exception as e:  # noqa: BLE001
                got = ("exc", type(e).__name__, str(e)[:300])
        rec.observe("renders-compared")
        prob = compare(ref, got)
        if prob:
            rec.violation(prob[0], case, {"what": prob[1]})
        return
    ref = e1run.reference(prog, case["mode"])
    built = env.build(prog)
    got = env.render(built, case["mode"], case["variant"], limit=20 * len(ref[-1].instances) + 50 if ref[0] != "unspec" else 500)
    rec.observe("renders-compared")
    prob = compare(ref, got) if ref[0] != "unspec" else None
    if prob:
        rec.violation(prob[0], case, {"what": prob[1]})
