"""C04 - exactly the JS/CSS of the rendered components is delivered, once, in order.

Reference-model monitor on the parsed final HTML.  E1 programs whose classes carry random subsets of
js / css / Media.js / Media.css (shared files, inheritance, dict-form css, blank js) and names from
three pools (ASCII, non-ASCII, type()-made names with '-' and '.') are rendered; the interpreter
supplies the list of rendered classes in first-appearance order; the delivered document is parsed:
inline <script>/<style> tokens must be exactly those of the rendered classes, once each, in that
order; Media files exactly once per URL; nothing of unrendered classes; no marker / placeholder
left.  Fragment mode: the same set must be declared in the base64 JSON for the client-side loader.
Three delivery routes (render_dependencies(), the middleware, Component.render()) must agree.
"""
import random

from vf import assets, e1run
from vf.gen import program as pg

PROP = "C04"
LEVEL = "exploration"
RULE = (
    "E1 programs (slots flavour) decorated with js/css/Media per class (shared Media files, single and multiple inheritance, Media.extend = False / [classes], dict-form css, blank "
    "js), class names from {ASCII, non-ASCII, dashed, dotted}; page wrapped as <html><head>..</head><body>..</body></html> with or "
    "without {% component_*_dependencies %} placeholders, or bare; document and fragment; delivered through render_dependencies(), "
    "the middleware and Component.render(), followed by two later pages over the same classes that render 1-2 of them alone; distinct by (program, page shape, type); non-trivial = >=2 rendered classes carry assets "
    "and >=1 class of the library is not rendered"
)
ASSUMPTIONS = [
    "for a bare page (no </head>/</body>, no placeholders) document mode has nowhere to insert (C08); only absence of leftovers is judged",
    "inline script order is judged against first appearance of the class's instances in document order (parents before children)",
]

SHAPES = ["placeholders", "headbody", "bare", "placeholders-in-component"]


def wrap(page_src, shape):
    if shape == "placeholders":
        return "<html><head><title>t</title>{% component_css_dependencies %}</head><body>" + page_src + "{% component_js_dependencies %}</body></html>"
    if shape == "headbody":
        return "<html><head><title>t</title></head><body>" + page_src + "</body></html>"
    return page_src


def judge(rec, case, html, exp, shape, mode_type, classes_all, prog):
    """Compare one delivered document with the expectation. Returns True if fine."""
    html = str(html)
    left = assets.LEFTOVERS.findall(html)
    if left:
        rec.violation("bookkeeping-marker-survives", case, {"what": f"{sorted(set(left))} left in output", "html": html[:700]})
        return False
    d = assets.parse_doc(html)
    tok_js = [t for t in (x.strip() for x in d.inline_js) if t.startswith("/*js:")]
    tok_css = [t for t in (x.strip() for x in d.inline_css) if t.startswith("/*css:")]
    want_js = [t for _, t in exp["inline_js"]]
    want_css = [t for _, t in exp["inline_css"]]
    if mode_type == "document":
        if shape == "bare":
            # nowhere to insert: only 'nothing foreign, nothing twice'
            if len(set(tok_js)) != len(tok_js) or not set(tok_js) <= set(want_js):
                rec.violation("wrong-inline-js", case, {"what": f"bare page: inline js {tok_js}", "html": html[:700]})
                return False
            return True
        if tok_js != want_js:
            rec.violation("wrong-inline-js", case, {"what": f"inline js {tok_js} expected {want_js}", "html": html[:900]})
            return False
        if tok_css != want_css:
            rec.violation("wrong-inline-css", case, {"what": f"inline css {tok_css} expected {want_css}", "html": html[:900]})
            return False
        media_js = [u for u in d.js_src if "django_components.min.js" not in u]
        if sorted(media_js) != sorted(exp["media_js"]):
            rec.violation("wrong-media-js", case, {"what": f"script src {sorted(media_js)} expected once each {sorted(exp['media_js'])}", "html": html[:900]})
            return False
        if sorted(d.css_href) != sorted(exp["media_css"]):
            rec.violation("wrong-media-css", case, {"what": f"link href {sorted(d.css_href)} expected once each {sorted(exp['media_css'])}", "html": html[:900]})
            return False
        core = [u for u in d.js_src if "django_components.min.js" in u]
        if len(core) != 1:
            rec.violation("core-script-count", case, {"what": f"{len(core)} core scripts"})
            return False
        if len(d.json_blobs) > 1:
            rec.violation("manager-json-count", case, {"what": f"{len(d.json_blobs)} data-djc JSON blobs"})
            return False
        if d.json_blobs:
            j = assets.decode_manager_json(d.json_blobs[0])
            # everything inlined must be marked as loaded, nothing scheduled to load
            if j["toLoadJsTags"] or j["toLoadCssTags"]:
                rec.violation("document-schedules-loading", case, {"what": str(j)[:300]})
                return False
            loaded_js = [u for u in j["loadedJsUrls"]]
            if len(loaded_js) != len(set(loaded_js)):
                rec.violation("loaded-url-twice", case, {"what": str(loaded_js)})
                return False
            n_expected = len(want_js) + len(exp["media_js"])
            if len(loaded_js) != n_expected:
                rec.violation("loaded-js-urls-count", case, {"what": f"{len(loaded_js)} loadedJsUrls, expected {n_expected}: {loaded_js}"})
                return False
        return True
    # fragment: nothing inlined, same set declared to the loader
    if tok_js or tok_css:
        rec.violation("fragment-inlines-assets", case, {"what": f"{tok_js} {tok_css}"})
        return False
    n_with_assets = len(want_js) + len(want_css) + len(exp["media_js"]) + len(exp["media_css"])
    if not d.json_blobs:
        if n_with_assets:
            rec.violation("fragment-declares-nothing", case, {"what": f"no data-djc JSON although {n_with_assets} assets are expected", "html": html[:600]})
            return False
        return True
    if len(d.json_blobs) != 1:
        rec.violation("manager-json-count", case, {"what": f"{len(d.json_blobs)} data-djc JSON blobs"})
        return False
    j = assets.decode_manager_json(d.json_blobs[0])
    js_urls = [m.group(1) for t in j["toLoadJsTags"] for m in [assets.SRC.search(t)] if m]
    css_urls = [m.group(1) for t in j["toLoadCssTags"] for m in [assets.HREF.search(t)] if m]
    comp_js = [u for u in js_urls if "/components/cache/" in u]
    comp_css = [u for u in css_urls if "/components/cache/" in u]
    if len(comp_js) != len(want_js) or len(set(comp_js)) != len(comp_js):
        rec.violation("fragment-wrong-component-js-urls", case, {"what": f"{comp_js} for expected classes {[c for c, _ in exp['inline_js']]}"})
        return False
    if len(comp_css) != len(want_css) or len(set(comp_css)) != len(comp_css):
        rec.violation("fragment-wrong-component-css-urls", case, {"what": f"{comp_css} for expected classes {[c for c, _ in exp['inline_css']]}"})
        return False
    if sorted(u for u in js_urls if u not in comp_js) != sorted(exp["media_js"]):
        rec.violation("fragment-wrong-media-js", case, {"what": f"{sorted(js_urls)} expected media {sorted(exp['media_js'])}"})
        return False
    if sorted(u for u in css_urls if u not in comp_css) != sorted(exp["media_css"]):
        rec.violation("fragment-wrong-media-css", case, {"what": f"{sorted(css_urls)} expected media {sorted(exp['media_css'])}"})
        return False
    return True


class Env(e1run.E1Env):
    def __init__(self):
        super().__init__()
        from django.http import HttpResponse

        from django_components import render_dependencies
        from django_components.middleware import ComponentDependencyMiddleware

        self.HttpResponse, self.render_dependencies, self.MW = HttpResponse, render_dependencies, ComponentDependencyMiddleware


def check_program(env, rec, prog, rng, seedinfo):
    mode = rng.choice(["django", "isolated"])
    ref = e1run.reference(prog, mode)
    if ref[0] != "ok":
        return None
    it = ref[2]
    rendered = list(it.classes_in_order)
    exp = assets.expected_assets(prog, rendered)
    shape = rng.choice(SHAPES)
    built = env.build(prog)
    nontrivial = (sum(1 for c in rendered if prog["classes"][c].get("js") or prog["classes"][c].get("css") or prog["classes"][c].get("media")) >= 2) and len(rendered) < len(prog["classes"])
    try:
        with env.override_settings(COMPONENTS={"context_behavior": mode, "autodiscover": False}):
            base_case = {"program": prog, "mode": mode, "shape": shape, "seed": seedinfo}
            if shape == "placeholders-in-component":
                # route 3: the page itself is a component rendered with Component.render()
                page_cls = type(f"{built.prefix.capitalize()}Page", (env.Component,), {"template": wrap(built.page_src, "placeholders")})
                for typ in ("document", "fragment"):
                    case = dict(base_case, route="Component.render", type=typ)
                    try:
                        out = page_cls.render(context=dict(prog.get("page_ctx", {})), type=typ)
                    except Exception as e:  # noqa: BLE001
                        rec.violation("delivery-raised-" + type(e).__name__, case, {"what": str(e)[:400]})
                        return nontrivial
                    rec.observe("documents-judged")
                    if not judge(rec, case, out, exp, "placeholders", typ, prog["classes"], prog):
                        return nontrivial
                return nontrivial
            src = wrap(built.page_src, shape)
            try:
                raw = env.Template(src).render(env.Context(dict(prog.get("page_ctx", {}))))
            except Exception as e:  # noqa: BLE001
                rec.violation("render-raised-" + type(e).__name__, dict(base_case, route="template"), {"what": str(e)[:400]})
                return nontrivial
            outs = {}
            for typ in ("document", "fragment"):
                case = dict(base_case, route="render_dependencies", type=typ)
                try:
                    out = env.render_dependencies(raw, type=typ)
                except Exception as e:  # noqa: BLE001
                    rec.violation("delivery-raised-" + type(e).__name__, case, {"what": str(e)[:400], "html": str(raw)[:500]})
                    return nontrivial
                rec.observe("documents-judged")
                outs[typ] = out
                if not judge(rec, case, out, exp, shape, typ, prog["classes"], prog):
                    return nontrivial
            # middleware route must agree with render_dependencies(document)
            resp = env.HttpResponse(raw, content_type="text/html; charset=utf-8")
            case = dict(base_case, route="middleware", type="document")
            try:
                out2 = env.MW(get_response=lambda r: resp)(None).content.decode("utf-8")
            except Exception as e:  # noqa: BLE001
                rec.violation("delivery-raised-" + type(e).__name__, case, {"what": str(e)[:400]})
                return nontrivial
            rec.observe("documents-judged")
            if out2 != str(outs["document"]):
                rec.violation("routes-disagree", case, {"what": "middleware output differs from render_dependencies()", "a": out2[:400], "b": str(outs["document"])[:400]})
                return nontrivial
            # history: further pages over the SAME classes (their media now resolved and cached), each rendering a few of the
            # classes on their own - what a class delivers must not depend on what was rendered before
            names = list(prog["classes"])
            for k in range(2):
                subset = rng.sample(names, rng.randint(1, min(2, len(names))))
                parents = [b for sp in prog["classes"].values() for b in assets.direct_bases(sp) + [x for x in [(sp.get("media") or {}).get("extend")] if isinstance(x, list) for x in x]]
                if parents and rng.random() < 0.6:
                    subset = [rng.choice(parents)]  # a class that others inherit / extend from, alone on the page
                prog2 = {"classes": prog["classes"], "page": [["comp", c, {"kwargs": {}}, None] for c in subset], "page_ctx": {}}
                ref2 = e1run.reference(prog2, mode)
                if ref2[0] != "ok":
                    continue
                exp2 = assets.expected_assets(prog, list(ref2[2].classes_in_order))
                src2 = wrap(pg.ser_nodes(prog2["page"], built.reg), "headbody")
                case = dict(base_case, route="later-page", later_page=subset)
                try:
                    raw2 = env.Template(src2).render(env.Context({}))
                    for typ in ("document", "fragment"):
                        case = dict(base_case, route="later-page", later_page=subset, type=typ)
                        out3 = env.render_dependencies(raw2, type=typ)
                        rec.observe("documents-judged")
                        rec.count("later_pages_judged")
                        if not judge(rec, case, out3, exp2, "headbody", typ, prog["classes"], prog):
                            return nontrivial
                except Exception as e:  # noqa: BLE001
                    rec.violation("later-page-raised-" + type(e).__name__, case, {"what": str(e)[:400]})
                    return nontrivial
    finally:
        built.dispose()
    return nontrivial


def plan(tier, seed):
    n = 6000 if tier == "quick" else 300000
    nshard = 14 if tier == "quick" else 30
    return [{"name": f"gen_{i:02d}", "n": n // nshard, "idx": i} for i in range(nshard)]


def run_shard(spec, rec):
    env = Env()
    rec.require("documents-judged")
    rng = random.Random(f"{spec['seed']}-c04-{spec['idx']}")
    for i in range(spec["n"]):
        for attempt in range(10):
            prng = random.Random(rng.random())
            prog = pg.ProgGen(prng, "slots", nclasses=prng.randint(2, 6), pyrender=True).program()
            if e1run.reference(prog, "django")[0] == "ok" and e1run.reference(prog, "isolated")[0] == "ok":
                break
        else:
            continue
        assets.add_assets(prog, prng)
        nt = check_program(env, rec, prog, prng, [spec["seed"], spec["idx"], i])
        rec.case(prog, nontrivial=bool(nt))
        for c, s in prog["classes"].items():
            rec.count("namekind:" + s["namekind"])
        if nt and rec.want_sample() and i % 29 == 0:
            rec.sample({"classes": {c: {k: s.get(k) for k in ("js", "css", "media", "base", "namekind")} for c, s in prog["classes"].items()}, "page": pg.ser_nodes(prog["page"], lambda c: c)[:300]})


def replay(case, rec):
    env = Env()
    rec.case(("replay", 1))
    rec.case(("replay", 2))
    rng = random.Random(0)
    prog = case["program"]
    # re-run every shape/mode for this program
    for k in range(12):
        check_program(env, rec, prog, random.Random(k), case.get("seed"))
