"""C06 - a finished or failed render leaves nothing behind  (fault enumeration).

For each generated program P a clean run counts the user-callback invocations n(P) (every
get_context_data, inject, on_render_before/after, slot function, harness filter and tag ticks a
failpoint controller); then for EVERY i < n(P) the render is repeated with invocation i raising.
Monitors after each run (clean or failing):
  * exception monitor - the surfaced exception is the injected object's class and, for a callback
    inside a component, its message carries the component path;
  * weakref liveness   - sentinels handed to the render (context value, component kwarg, slot
    function, the Context itself) are dead after dropping the exception and gc.collect();
  * census             - the reflection-found containers of django_components.* have exactly their
    pre-failure sizes (a warm clean run defines the baseline);
  * follow-up          - a clean render afterwards equals the baseline output; re-using the caller's
    Context after a failure leaves it with the same layers;
  * steady state       - repeating clean+failing renders K times neither grows the census between
    K/3 and K nor the gc object count by more than 0.2 objects per repetition.
"""
import gc
import random
import weakref

from vf import e1run
from vf.gen import program as pg
from vf.mon import census, failpoints

PROP = "C06"
LEVEL = "fault_enumeration"
RULE = (
    "E1 programs in the 'faults' flavour (slots, fills, providers/consumers, hooks, harness filter and tag as user-code points, "
    "Class.render() called from get_context_data() of a nested component) x "
    "one context behaviour each; for every callback index i of the clean run the render with invocation i raising one of ValueError"
    "('m'), KeyError(7), OSError(2,'x'), a custom multi-line exception (kind rotates with i; all four in the thorough tier); plus "
    "Python-route renders with slot functions; distinct by (program, failpoint index, exception kind); non-trivial = the failpoint is "
    "inside a component that is nested in another component or in a slot fill"
)
ASSUMPTIONS = [
    "bounded caches may grow until warm: the census baseline is taken after two clean runs of the same program",
    "the component path check requires the failing component's registered name and the root component's name in the message, not the exact slot segments",
]

PREFIX = "An error occured while rendering components "


class Sentinel:
    def __init__(self, tag):
        self.tag = tag

    def __str__(self):
        return "S"


class Env(e1run.E1Env):
    def __init__(self):
        super().__init__()
        failpoints.install_library()
        self.fp = failpoints.Controller()
        failpoints.CURRENT = self.fp


def tweak(prog):
    """Give the first page-level component a kwarg that carries a sentinel from the page context."""
    for n in prog["page"]:
        if n[0] == "comp":
            n[2].setdefault("kwargs", {})["sx"] = ["var", "sent"]
            break
    return prog


def run_once(env, built, mode, arm=None):
    """One top-level render with fresh sentinels.  -> dict(result, exc, refs, ctx_layers)"""
    s_ctx, s_kw = Sentinel("ctx"), Sentinel("kw")
    page_ctx = dict(built.program.get("page_ctx", {}))
    page_ctx["sent"] = s_kw
    page_ctx["sent_ctx"] = s_ctx
    env.fp.arm(arm[0] if arm else None, arm[1] if arm else None)
    ctx = None
    res = None
    exc_info = None
    try:
        with env.override_settings(COMPONENTS={"context_behavior": mode, "autodiscover": False}):
            ctx = env.Context(page_ctx)
            layers_before = (len(ctx.dicts), len(ctx.render_context.dicts))
            try:
                res = e1run.normalise(env.Template(built.page_src).render(ctx))
            except Exception as e:  # noqa: BLE001
                # OSError builds str() from errno/strerror, so the annotation is looked for in args as well
                exc_info = (type(e), str(e) + " || " + " ".join(str(a) for a in e.args), e is (arm[1] if arm else None), tuple(e.args[1:]))
            layers_after = (len(ctx.dicts), len(ctx.render_context.dicts))
    finally:
        n, log, fired = env.fp.count, list(env.fp.log), env.fp.fired
        env.fp.arm(None, None)
    refs = [weakref.ref(s_ctx), weakref.ref(s_kw), weakref.ref(ctx)]
    del s_ctx, s_kw, ctx, page_ctx
    return {"res": res, "exc": exc_info, "refs": refs, "layers": (layers_before, layers_after), "n": n, "log": log, "fired": fired}


CENSUS_IGNORE = ()


def program_fault_sweep(env, rec, prog, mode, kinds, seedinfo):
    built = env.build(prog, failpoints=env.fp)
    nontrivial = 0
    try:
        r1 = run_once(env, built, mode)
        if r1["exc"] is not None:
            return 0  # not a clean program
        r2 = run_once(env, built, mode)
        gc.collect()
        base_census = census.snapshot()
        base_out = r2["res"]
        n = r2["n"]
        rec.count("callbacks_in_clean_runs", n)
        if r1["res"] != base_out:
            rec.violation("clean-render-not-repeatable", {"program": prog, "mode": mode, "seed": seedinfo}, {"what": "two clean runs differ"})
            return 0
        log = r2["log"]
        for i in range(n):
            for kind in kinds(i):
                exc = failpoints.make_exc(kind)
                r = run_once(env, built, mode, arm=(i, exc))
                rec.observe("failpoints-executed")
                case = {"program": prog, "mode": mode, "failpoint": i, "exc": kind, "callback": list(log[i]), "seed": seedinfo}
                rec.case(("fp", prog, mode, i, kind), nontrivial=True)
                rec.count("failpoint_kind:" + log[i][0])
                where = r["fired"]
                if where is None:
                    rec.inconc("failpoint-not-reached")
                    continue
                # --- exception monitor
                if r["exc"] is None:
                    rec.violation("exception-swallowed", case, {"what": f"callback {where} raised {kind} but the render returned {str(r['res'])[:120]!r}"})
                    continue
                etype, emsg, same, rest_args = r["exc"]
                # annotating the message must not drop the exception's further arguments (OSError(2, 'x') -> 'x')
                if rest_args != tuple(failpoints.make_exc(kind).args[1:]):
                    rec.violation("exception-arguments-lost", case, {"what": f"injected {kind} with args {failpoints.make_exc(kind).args!r}; caller sees further args {rest_args!r}"})
                    continue
                if etype is not type(exc):
                    rec.violation("exception-replaced", case, {"what": f"injected {type(exc).__name__} at {where}, surfaced {etype.__name__}: {emsg[:200]}"})
                    continue
                cname = where[1]
                if cname is not None:
                    reg = built.names[cname]
                    # (a component rendered from Python - Class.render() inside get_context_data() - is named by its class)
                    if PREFIX not in emsg or (reg not in emsg and built.classes[cname].__name__ not in emsg):
                        rec.violation("exception-not-annotated-with-path", case, {"what": f"failing component {reg}; message {emsg[:300]!r}"})
                        continue
                exc = None
                # --- liveness
                gc.collect()
                rec.observe("sentinels-checked", 3)
                alive = [name for name, ref in zip(("context-value", "component-kwarg", "Context"), r["refs"]) if ref() is not None]
                if alive:
                    rec.violation("render-objects-stay-reachable", case, {"what": f"still reachable after the failed render: {alive}", "census_growth": census.diff(base_census, census.snapshot())})
                    continue
                # --- census
                c = census.snapshot()
                rec.observe("census-snapshots")
                d = census.diff(base_census, c, CENSUS_IGNORE)
                if d:
                    rec.violation("registry-residue-after-failed-render", case, {"what": f"{d}"})
                    # re-baseline so that one leak is reported once per failpoint, not cumulatively
                    base_census = c
                    continue
                # --- context restored
                if r["layers"][0] != r["layers"][1]:
                    rec.violation("caller-context-not-restored", case, {"what": f"layers (dicts, render_context) before {r['layers'][0]} after {r['layers'][1]}"})
                    continue
                nontrivial += 1
        # --- follow-up render equals baseline
        r3 = run_once(env, built, mode)
        rec.observe("followup-renders")
        if r3["res"] != base_out:
            rec.violation("later-render-differs-after-failures", {"program": prog, "mode": mode, "seed": seedinfo}, {"what": f"baseline {str(base_out)[:200]!r} now {str(r3['res'])[:200]!r} exc {r3['exc']}"})
    finally:
        built.dispose()
    return nontrivial


def steady_state(env, rec, prog, mode, K, seedinfo):
    built = env.build(prog, failpoints=env.fp)
    try:
        r = run_once(env, built, mode)
        if r["exc"] is not None or r["n"] == 0:
            return
        n = r["n"]
        snaps = {}
        counts = {}
        for rep in range(K):
            run_once(env, built, mode)
            run_once(env, built, mode, arm=(rep % n, failpoints.make_exc(failpoints.EXC_KINDS[rep % 4])))
            if rep in (K // 3, K - 1):
                gc.collect()
                snaps[rep] = census.snapshot()
                counts[rep] = len(gc.get_objects())
        rec.observe("steady-state-runs")
        case = {"program": prog, "mode": mode, "kind": "steady", "K": K, "seed": seedinfo}
        rec.case(("steady", prog, mode), nontrivial=True)
        d = census.diff(snaps[K // 3], snaps[K - 1])
        if d:
            rec.violation("census-grows-with-repetition", case, {"what": f"between repetition {K // 3} and {K - 1}: {d}"})
            return
        slope = (counts[K - 1] - counts[K // 3]) / (K - 1 - K // 3)
        rec.maxi("max:gc_objects_per_repetition_x1000", int(max(0, slope) * 1000))
        if slope > 0.2:
            rec.violation("memory-grows-with-repetition", case, {"what": f"{slope:.2f} gc objects per repetition ({counts})"})
    finally:
        built.dispose()


def python_route(env, rec, prog, mode, seedinfo):
    """Component.render(slots={name: function}) with failing slot functions / hooks."""
    from django.utils.safestring import mark_safe

    built = env.build(prog, failpoints=env.fp)
    try:
        cname = next(iter(prog["classes"]))
        cls = built.classes[cname]

        def mk(name):
            def slot_fn(ctx, data, ref):
                env.fp.tick("slot_func", cname)
                return mark_safe(f"[sf-{name}]")

            return slot_fn

        names = ["a", "default", "b"]

        def once(arm=None):
            fns = {n: mk(n) for n in names}
            refs = [weakref.ref(f) for f in fns.values()]
            env.fp.arm(arm[0] if arm else None, arm[1] if arm else None)
            out, exc_info = None, None
            try:
                with env.override_settings(COMPONENTS={"context_behavior": mode, "autodiscover": False}):
                    try:
                        out = e1run.normalise(cls.render(slots=fns, kwargs={"sx": Sentinel("kw")}, render_dependencies=False))
                    except Exception as e:  # noqa: BLE001
                        exc_info = (type(e), str(e))
            finally:
                n, log, fired = env.fp.count, list(env.fp.log), env.fp.fired
                env.fp.arm(None, None)
            del fns
            return out, exc_info, refs, n, log, fired

        o1 = once()
        if o1[1] is not None:
            return
        o2 = once()
        gc.collect()
        base = census.snapshot()
        for i in range(o2[3]):
            kind = failpoints.EXC_KINDS[i % 4]
            exc = failpoints.make_exc(kind)
            out, exc_info, refs, _, log, fired = once(arm=(i, exc))
            rec.observe("failpoints-executed")
            case = {"program": prog, "mode": mode, "failpoint": i, "exc": kind, "route": "python", "callback": list(o2[4][i]), "seed": seedinfo}
            rec.case(("pyfp", prog, mode, i, kind), nontrivial=True)
            rec.count("failpoint_kind:" + o2[4][i][0])
            if fired is None:
                rec.inconc("failpoint-not-reached")
                continue
            if exc_info is None:
                rec.violation("exception-swallowed", case, {"what": f"{fired}"})
                continue
            if exc_info[0] is not type(exc):
                rec.violation("exception-replaced", case, {"what": f"injected {type(exc).__name__} at {fired}, surfaced {exc_info[0].__name__}: {exc_info[1][:200]}"})
                continue
            exc = None
            gc.collect()
            rec.observe("sentinels-checked", len(refs))
            if any(r() is not None for r in refs):
                rec.violation("render-objects-stay-reachable", case, {"what": "slot functions of a failed render are still reachable", "census_growth": census.diff(base, census.snapshot())})
                continue
            d = census.diff(base, census.snapshot())
            rec.observe("census-snapshots")
            if d:
                rec.violation("registry-residue-after-failed-render", case, {"what": f"{d}"})
                base = census.snapshot()
    finally:
        built.dispose()


def gen(rng):
    for _ in range(20):
        prng = random.Random(rng.random())
        prog = pg.ProgGen(prng, "faults", nclasses=prng.randint(2, 4), size=prng.choice([6, 10])).program()
        if e1run.reference(prog, "django")[0] == "ok" and e1run.reference(prog, "isolated")[0] == "ok":
            return tweak(prog)
    return None


def plan(tier, seed):
    n = 600 if tier == "quick" else 6000
    nshard = 15 if tier == "quick" else 30
    shards = [{"name": f"sweep_{i:02d}", "kind": "sweep", "n": n // nshard, "idx": i, "all_kinds": tier != "quick"} for i in range(nshard)]
    shards.append({"name": "steady", "kind": "steady", "n": 6 if tier == "quick" else 40, "K": 60 if tier == "quick" else 300})
    return shards


# ---------------------------------------------------------------------------------------
# Canary pages: "every later render behaves as if the failed one had never happened" is also judged on pages that have
# nothing to do with the failed program - the skeleton catalogue's hard compositions (default content passed on through
# {{ default_var }} with components and slots in it, forwarding, slots in loops ...), rendered once at the start of the
# worker (checked against the reference interpreter) and again after every program's fault sweep.
def make_canaries(env):
    from vf.gen import skeletons

    out = []
    k = 0
    while len(out) < 10 and k < 60:
        k += 1
        rng = random.Random(f"c06-canary-{k}")
        prog, skname, _g = skeletons.skeleton_program(rng)
        for mode in ("django", "isolated"):
            ref = e1run.reference(prog, mode)
            if ref[0] != "ok":
                break
        else:
            built = env.build(prog)
            base = {}
            for mode in ("django", "isolated"):
                got = env.render(built, mode)
                if got[0] != "ok" or got[1] != e1run.reference(prog, mode)[1]:
                    base = None
                    break
                base[mode] = got[1]
            if base:
                out.append((skname, prog, built, base))
            else:
                built.dispose()
    return out


def check_canaries(env, rec, canaries, after):
    for skname, prog, built, base in canaries:
        for mode in ("django", "isolated"):
            got = env.render(built, mode)
            rec.observe("canary-renders")
            if got[0] != "ok" or got[1] != base[mode]:
                rec.violation("unrelated-page-renders-differently-after-failed-renders", {"program": after.get("program"), "mode": after.get("mode"), "seed": after.get("seed"), "canary": skname, "canary_program": prog, "canary_mode": mode}, {"what": f"canary {skname} ({mode}): at worker start {base[mode][:200]!r}, now {str(got[1])[:200]!r}"})
                return False
    return True


def run_shard(spec, rec):
    env = Env()
    rng = random.Random(f"{spec['seed']}-c06-{spec['name']}")
    if spec["kind"] == "steady":
        rec.require("steady-state-runs")
        for i in range(spec["n"]):
            prog = gen(rng)
            if prog is not None:
                steady_state(env, rec, prog, rng.choice(["django", "isolated"]), spec["K"], [spec["seed"], "steady", i])
        return
    rec.require("failpoints-executed", "sentinels-checked", "census-snapshots", "followup-renders", "canary-renders")
    canaries = make_canaries(env)
    rec.count("canary_pages", len(canaries))
    canaries_ok = True
    for i in range(spec["n"]):
        prog = gen(rng)
        if prog is None:
            continue
        mode = rng.choice(["django", "isolated"])
        if spec["all_kinds"]:
            kinds = lambda j: failpoints.EXC_KINDS  # noqa: E731
        else:
            kinds = lambda j: [failpoints.EXC_KINDS[j % 4]]  # noqa: E731
        program_fault_sweep(env, rec, prog, mode, kinds, [spec["seed"], spec["idx"], i])
        rec.count("programs")
        if canaries_ok:
            # (after the first report the worker's state is what it is: one report per worker)
            canaries_ok = check_canaries(env, rec, canaries, {"program": prog, "mode": mode, "seed": [spec["seed"], spec["idx"], i]})
        if i % 3 == 0:
            python_route(env, rec, prog, mode, [spec["seed"], spec["idx"], i])
        if rec.want_sample() and i % 3 == 0:
            b = pg.Built(prog, "sample")
            rec.sample({"page": b.page_src[:300], "templates": {c: cls.template[:200] for c, cls in b.classes.items()}, "inject": {c: s.get("inject") for c, s in prog["classes"].items()}, "mode": mode})
            b.dispose()


def replay(case, rec):
    env = Env()
    rec.case(("replay", 1))
    rec.case(("replay", 2))
    prog = case["program"]
    if case.get("kind") == "steady":
        steady_state(env, rec, prog, case["mode"], case["K"], case.get("seed"))
    elif case.get("route") == "python":
        python_route(env, rec, prog, case["mode"], case.get("seed"))
    else:
        canaries = make_canaries(env)
        program_fault_sweep(env, rec, prog, case["mode"], lambda j: failpoints.EXC_KINDS, case.get("seed"))
        check_canaries(env, rec, canaries, case)
