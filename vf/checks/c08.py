"""C08 - render_dependencies only strips markers/placeholders and inserts tags where documented.

Oracle by construction: a document is a list of typed pieces (text, marker, css/js placeholder,
</head>, </body>), so the expected output is known without parsing: pieces minus markers and
placeholders, CSS / JS inserted at every placeholder of its kind, else before the first </head> /
last </body>, else nowhere (fragment: placeholders removed, JS payload appended).  The CSS / JS
strings themselves are taken from the implementation on a *canonical* document with the same
markers and both placeholders (C04 decides their content).
"""
import random
import re

PROP = "C08"
LEVEL = "exploration"
RULE = (
    "documents = 0-14 pieces drawn from text runs (ASCII, non-ASCII, '<', '%', look-alike tags/markers/placeholders that "
    "do not match the grammar), </head> and </body> in whitespace/case variants in any order, css/js placeholders in all "
    "emitted forms, marker comments of 4 real rendered components (inline js/css and a Media file name contain non-ASCII text); each as str, SafeString, UTF-8 bytes (and latin-1 bytes "
    "when non-ASCII text is present), document and fragment, directly and through the middleware; distinct by (pieces, type, "
    "mode); non-trivial = at least one marker/placeholder/end tag present"
)
ASSUMPTIONS = [
    "marker comments name registered, already rendered component classes (as real render output does)",
    "upper/mixed-case end tags: the statement does not say whether they count; exactly two outputs are accepted (all variants count / only lower-case ones)",
]

TEXTS = [
    "a", " ", "\n", "<div>", "</div>", "<p class='x'>", "é", "日本", "&amp;", "%", "100%", "<", ">", "<!-- c -->", "</header>", "<head>", "<body>",
    "</ head>", "</bodyx>", "<!--_RENDERED x,1,, -->", "<!-- RENDERED a,b,, -->", "<!-- _RENDERED -->",
    # comments that match the marker pattern but are not markers of a rendered component: not ours to remove
    "<!-- _RENDERED foo -->", "<!-- _RENDERED a,b -->", "<!-- _RENDERED NoSuchComp_123abc,a1B2c3,, -->", "<!--  _RENDERED\té,1,zz,  -->", '<link name="CSS_PLACEHOLDERS">',
    '<link name="CSS_PLACEHOLDER" >', '<script name="JS_PLACEHOLDER"> </script>', '<link name="css_placeholder">', "<script>1</script>",
    "<style>a{}</style>", "{{ x }}", "{% y %}", "\\", "\x00", " ", "</html>", "<template djc-render-id=\"abc123\"></template>", "data-djc-id-a1b2c3",
    "\ue0dc",  # stands for a lone surrogate (str inputs only, see run_case; recorded cases keep this encodable stand-in)
]
END_HEAD = ["</head>", "</head>", "</head>", "</head >", "</head\n>", "</head\t >", "</HEAD>", "</Head>"]
END_BODY = ["</body>", "</body>", "</body>", "</body >", "</body\n>", "</BODY>", "</Body >"]
# (a placeholder that is the root of a component which is itself the root of other components carries one id per instance)
CSS_PH = ['<link name="CSS_PLACEHOLDER">', '<link name="CSS_PLACEHOLDER"/>', '<link name="CSS_PLACEHOLDER" data-djc-id-a1B2c3="">', '<link name="CSS_PLACEHOLDER" data-djc-css-99914b="" data-djc-id-a1B2c3=""/>',
          '<link name="CSS_PLACEHOLDER" data-djc-id-a1B2c3="" data-djc-id-Zz09aa=""/>', '<link name="CSS_PLACEHOLDER" data-djc-css-99914b="" data-djc-id-a1B2c3="" data-djc-id-Zz09aa="" data-djc-id-q7q7q7="">']
JS_PH = ['<script name="JS_PLACEHOLDER"></script>', '<script name="JS_PLACEHOLDER" data-djc-id-Zz09aa=""></script>', '<script name="JS_PLACEHOLDER" data-djc-css-99914b="" data-djc-id-a1B2c3=""></script>',
         '<script name="JS_PLACEHOLDER" data-djc-id-a1B2c3="" data-djc-id-Zz09aa=""></script>', '<script name="JS_PLACEHOLDER" data-djc-css-99914b="" data-djc-id-a1B2c3="" data-djc-id-Zz09aa="" data-djc-id-q7q7q7=""></script>']
SENSITIVE = re.compile(r"</head|</body|_RENDERED|PLACEHOLDER", re.I)


class Env:
    def __init__(self):
        from vf import boot

        boot.boot()
        from django.utils.safestring import SafeString, mark_safe

        from django_components import Component, render_dependencies
        from django_components.middleware import ComponentDependencyMiddleware

        self.SafeString, self.mark_safe = SafeString, mark_safe
        self.render_dependencies = render_dependencies
        self.MW = ComponentDependencyMiddleware

        class C08K0(Component):
            template = "<div>k0</div>"
            # non-ASCII in the inserted strings themselves: character offsets and byte offsets of the insertion points differ
            js = "console.log('k0 \u2192 \u00fc');"
            css = ".k0::before { content: '\u2192 \u65e5\u672c'; color: red; }"

        class C08K1(Component):
            template = "<div>k1</div>"
            js = "console.log('k1');"

            class Media:
                js = ["k1.js", "shared.js"]
                css = ["k1.css"]

        class C08K2(Component):
            template = "<span>k2</span>"

        class C08K3(Component):
            template = "<i>k3</i>"
            css = ".k3 { }"

            class Media:
                js = ["shared.js"]
                css = {"all": ["shared.css"], "print": ["k3p-\u00e9.css"]}

        self.classes = [C08K0, C08K1, C08K2, C08K3]  # comp_hash_mapping holds classes weakly
        self.markers = []
        mk = re.compile(r"<!-- _RENDERED ([^ ]+) -->")
        for cls in (C08K0, C08K1, C08K2, C08K3):
            out = cls.render(render_dependencies=False)
            m = mk.search(out)
            assert m, out
            cls_hash = m.group(1).split(",")[0]
            self.markers.append(cls_hash)
        self.canon = {}

    def marker(self, k, rid):
        return f"<!-- _RENDERED {self.markers[k]},{rid},, -->"

    def css_js(self, marker_seq, mode):
        """CSS/JS strings from the implementation on the canonical document."""
        key = (tuple(marker_seq), mode)
        if key in self.canon:
            return self.canon[key]
        sep = "\x01SEP\x01"
        ms = "".join(self.marker(k, "c%05d" % i) for i, k in enumerate(marker_seq))
        if mode == "document":
            out = self.render_dependencies(ms + CSS_PH[0] + sep + JS_PH[0], type="document")
            css, js = out.split(sep)
        else:
            css, js = "", self.render_dependencies(ms, type="fragment")
        self.canon[key] = (css, js)
        return css, js


def gen_doc(rng):
    """Returns list of [kind, text] pieces."""
    shape = rng.random()
    n = rng.randint(0, 14)
    pieces = []
    for _ in range(n):
        r = rng.random()
        if r < 0.45:
            pieces.append(["text", "".join(rng.choice(TEXTS) for _ in range(rng.randint(1, 4)))])
        elif r < 0.62:
            pieces.append(["marker", [rng.randrange(4), "".join(rng.choice("abcXYZ019") for _ in range(6))]])
        elif r < 0.74:
            pieces.append(["endhead", rng.choice(END_HEAD if shape < 0.8 else END_HEAD[:6])])
        elif r < 0.86:
            pieces.append(["endbody", rng.choice(END_BODY if shape < 0.8 else END_BODY[:5])])
        elif r < 0.93:
            pieces.append(["cssph", rng.choice(CSS_PH)])
        else:
            pieces.append(["jsph", rng.choice(JS_PH)])
    return pieces


def render_pieces(env, pieces):
    out = []
    for kind, v in pieces:
        out.append(env.marker(v[0], v[1]) if kind == "marker" else v)
    return out


def expected_outputs(env, pieces, mode, doc_enc=None):
    """Set of acceptable outputs (1 or 2 elements): str, or bytes when doc_enc is given (document pieces keep
    the document's own encoding byte for byte, inserted tags are UTF-8)."""
    strs = render_pieces(env, pieces)
    marker_seq = [v[0] for kind, v in pieces if kind == "marker"]
    css, js = env.css_js(marker_seq, mode)
    empty = ""
    if doc_enc:
        strs = [x.encode(doc_enc) for x in strs]
        css, js, empty = css.encode("utf-8"), js.encode("utf-8"), b""
    has_css_ph = any(k == "cssph" for k, _ in pieces)
    has_js_ph = any(k == "jsph" for k, _ in pieces)
    outs = set()
    for case_counts in (True, False):
        heads = [i for i, (k, v) in enumerate(pieces) if k == "endhead" and (case_counts or v == v.lower())]
        bodies = [i for i, (k, v) in enumerate(pieces) if k == "endbody" and (case_counts or v == v.lower())]
        first_head = heads[0] if heads else None
        last_body = bodies[-1] if bodies else None
        buf = []
        for i, ((kind, _), s) in enumerate(zip(pieces, strs)):
            if kind == "marker":
                continue
            if kind == "cssph":
                buf.append(css if mode == "document" else empty)
                continue
            if kind == "jsph":
                buf.append(js if mode == "document" else empty)
                continue
            if mode == "document":
                if kind == "endhead" and i == first_head and not has_css_ph:
                    buf.append(css)
                if kind == "endbody" and i == last_body and not has_js_ph:
                    buf.append(js)
            buf.append(s)
        if mode == "fragment":
            buf.append(js)
        outs.add(empty.join(buf))
    return outs


def sane(env, pieces):
    """The concatenation must contain sensitive substrings only where pieces designate them."""
    strs = render_pieces(env, pieces)
    whole = "".join(strs)
    want = sum(len(SENSITIVE.findall(s)) for (k, _), s in zip(pieces, strs) if k != "text")
    # text look-alikes contain sensitive words on purpose; count them per piece, then compare
    want += sum(len(SENSITIVE.findall(s)) for (k, _), s in zip(pieces, strs) if k == "text")
    return len(SENSITIVE.findall(whole)) == want


STANDIN = "\ue0dc"
LONE = "\udc80"  # a lone surrogate: a Python str may hold it ("any HTML string"), UTF-8 cannot


def run_case(env, rec, case):
    pieces, mode, typ, via = case["pieces"], case["mode"], case["type"], case["via"]
    # only a str handed to render_dependencies() directly can carry a lone surrogate
    sub = LONE if (typ in ("str", "safe") and via == "direct") else ""
    pieces = [[p[0], p[1].replace(STANDIN, sub)] + list(p[2:]) if p[0] == "text" else p for p in pieces]
    src = "".join(render_pieces(env, pieces))
    exp = expected_outputs(env, pieces, mode)
    enc = "utf-8"
    if typ == "str":
        inp = src
    elif typ == "safe":
        inp = env.mark_safe(src)
    elif typ == "bytes":
        inp = src.encode("utf-8")
    else:  # latin-1 bytes: only when encodable
        try:
            inp = src.encode("latin-1")
        except UnicodeEncodeError:
            return "skip"
        enc = "latin-1"
    try:
        if via == "direct":
            out = env.render_dependencies(inp, type=mode)
        else:
            from django.http import HttpResponse

            resp = HttpResponse(inp if isinstance(inp, bytes) else inp.encode("utf-8"), content_type=case.get("ctype", "text/html; charset=utf-8"))
            mw = env.MW(get_response=lambda req: resp)
            r2 = mw(None)
            out = r2.content
            if r2 is not resp:
                rec.violation("middleware-replaced-response", case, {})
            if typ in ("str", "safe"):
                out = out.decode("utf-8")
    except Exception as e:  # noqa: BLE001
        rec.report("raised-" + type(e).__name__, case, {"what": repr(e)[:300], "input": repr(inp)[:300]})
        return "done"
    rec.observe("outputs-compared")
    # type preservation
    if via == "direct":
        if typ == "safe" and not isinstance(out, env.SafeString):
            rec.violation("type-not-preserved", case, {"what": f"SafeString in, {type(out).__name__} out"})
        if typ == "str" and (isinstance(out, env.SafeString) or not isinstance(out, str)):
            rec.violation("type-not-preserved", case, {"what": f"str in, {type(out).__name__} out"})
        if typ in ("bytes", "latin1") and not isinstance(out, bytes):
            rec.violation("type-not-preserved", case, {"what": f"bytes in, {type(out).__name__} out"})
    if isinstance(out, bytes):
        # judged byte for byte
        exp_b = expected_outputs(env, pieces, mode, doc_enc=enc)
        if out in exp_b:
            return "done"
        out_s = out.decode("latin-1")
        exp = {x.decode("latin-1") for x in exp_b}
    else:
        out_s = str(out)
    if out_s not in exp:
        e0 = sorted(exp)[0]
        i = 0
        while i < min(len(e0), len(out_s)) and e0[i] == out_s[i]:
            i += 1
        rec.report(
            "output-differs",
            case,
            {"what": f"first difference at {i}: got ...{out_s[max(0, i - 30):i + 60]!r} expected ...{e0[max(0, i - 30):i + 60]!r}".encode("utf-8", "backslashreplace").decode(), "input": src[:400].encode("utf-8", "backslashreplace").decode()},
        )
    return "done"


def plan(tier, seed):
    n = 150000 if tier == "quick" else 8_000_000
    nshard = 15 if tier == "quick" else 32
    shards = [{"name": f"gen_{i:02d}", "kind": "gen", "n": n // nshard, "idx": i} for i in range(nshard)]
    shards.append({"name": "passthrough", "kind": "pass", "n": 600 if tier == "quick" else 20000})
    return shards


def run_shard(spec, rec):
    env = Env()
    rec.require("outputs-compared")
    if spec["kind"] == "pass":
        return shard_pass(env, spec, rec)
    rng = random.Random(f"{spec['seed']}-c08-{spec['idx']}")
    for i in range(spec["n"]):
        pieces = gen_doc(rng)
        if not sane(env, pieces):
            rec.count("regenerated")
            continue
        mode = "document" if rng.random() < 0.7 else "fragment"
        typ = rng.choice(["str", "str", "safe", "bytes", "bytes", "latin1"])
        via = "direct" if (mode == "fragment" or rng.random() < 0.75) else "middleware"
        case = {"pieces": pieces, "mode": mode, "type": typ, "via": via}
        r = run_case(env, rec, case)
        if r == "skip":
            case["type"] = typ = "bytes"
            run_case(env, rec, case)
        kinds = {k for k, _ in pieces}
        nt = bool(kinds - {"text"})
        rec.case((tuple((k, tuple(v) if isinstance(v, list) else v) for k, v in pieces), mode, typ, via), nontrivial=nt)
        rec.count("mode:" + mode)
        rec.count("type:" + typ)
        rec.count("via:" + via)
        heads = [j for j, (k, _) in enumerate(pieces) if k == "endhead"]
        bodies = [j for j, (k, _) in enumerate(pieces) if k == "endbody"]
        if heads and bodies and bodies[-1] < heads[0]:
            rec.count("shape:last-body-before-first-head")
        if len(heads) > 1:
            rec.count("shape:multiple-head-end-tags")
        if len(bodies) > 1:
            rec.count("shape:multiple-body-end-tags")
        if "cssph" in kinds and "jsph" not in kinds:
            rec.count("shape:css-placeholder-only")
        if "jsph" in kinds and "cssph" not in kinds:
            rec.count("shape:js-placeholder-only")
        if nt and rec.want_sample() and i % 173 == 0:
            rec.sample({"input": "".join(render_pieces(env, pieces))[:300], "mode": mode, "type": typ, "via": via})


def shard_pass(env, spec, rec):
    """Non-HTML and streaming responses pass through the middleware untouched."""
    from django.http import HttpResponse, StreamingHttpResponse

    rng = random.Random(f"{spec['seed']}-c08-pass")
    rec.require("passthrough-checks")
    for i in range(spec["n"]):
        pieces = gen_doc(rng)
        src = "".join(render_pieces(env, pieces)).replace(STANDIN, "").encode("utf-8")
        kind = rng.choice(["json", "plain", "xml", "stream-html", "stream-json", "nohdr"])
        case = {"pieces": pieces, "kind": kind, "mode": "document", "type": "bytes", "via": "passthrough"}
        rec.case(("pass", kind, src), nontrivial=True)
        if kind.startswith("stream"):
            chunks = [src[j : j + 7] for j in range(0, len(src), 7)]
            resp = StreamingHttpResponse(iter(chunks), content_type="text/html" if kind == "stream-html" else "application/json")
        else:
            ctype = {"json": "application/json", "plain": "text/plain; charset=utf-8", "xml": "application/xhtml+xml", "nohdr": "text/html"}[kind]
            resp = HttpResponse(src, content_type=ctype)
            if kind == "nohdr":
                del resp["Content-Type"]
        r2 = env.MW(get_response=lambda req: resp)(None)
        rec.observe("passthrough-checks")
        rec.observe("outputs-compared")
        if r2 is not resp:
            rec.violation("middleware-replaced-response", case, {})
        got = b"".join(r2.streaming_content) if kind.startswith("stream") else r2.content
        if got != src:
            rec.violation("passthrough-modified", case, {"what": f"{kind}: body changed", "input": repr(src)[:300], "got": repr(got)[:300]})


def replay(case, rec):
    env = Env()
    rec.case(("replay", 1))
    rec.case(("replay", 2))
    rec.observe("outputs-compared")
    if case.get("via") == "passthrough":
        rec.note("passthrough cases: re-run the shard")
        return
    run_case(env, rec, case)
