"""C19 - every script URL a render emits is served with that component's code.

History monitor.  Sequences of document / fragment renders of generated components (with / without
js / css, names from several pools), interleaved with media-cache clears, run in one process under
the default LocMem cache and under a named Django cache; after *each* render every component
endpoint URL the output announces (loadedJsUrls/loadedCssUrls in document mode, toLoad*Tags in
fragment mode) is fetched with django.test.Client: 200, body == that class's js / css, matching
content type.  Path fuzz: unknown hashes, kinds, input hashes, extra dots / colons and non-GET
methods must give 404 / 405 - never a server error or another component's code.
"""
import random

from vf import assets, e1run
from vf.gen import program as pg

PROP = "C19"
LEVEL = "exploration"
RULE = (
    "histories of 3-8 renders (document/fragment, via Component.render and template + render_dependencies) of E1 programs decorated "
    "with js/css, interleaved with media-cache clears and class re-use across renders, under LocMem default and a named cache; every "
    "announced component URL fetched after the render that announced it; plus fuzzed request paths and methods; distinct by history; "
    "non-trivial = at least two URLs of different classes fetched and one cache clear happened"
)
ASSUMPTIONS = [
    "cache eviction *during* a render or between a render and the fetch of its URLs is outside the quantifier",
    "classes stay referenced while their URLs are fetched (the hash table holds them weakly)",
]


class Env(e1run.E1Env):
    def __init__(self, named_cache):
        comps = {"cache": "djc"} if named_cache else None
        from vf import boot

        boot.boot(
            components=comps,
            extra_settings={"CACHES": {"default": {"BACKEND": "django.core.cache.backends.locmem.LocMemCache", "LOCATION": "d"}, "djc": {"BACKEND": "django.core.cache.backends.locmem.LocMemCache", "LOCATION": "djc"}}},
        )
        super().__init__(components=comps)
        from django.test import Client

        from django_components import render_dependencies

        self.client = Client(raise_request_exception=False)
        self.render_dependencies = render_dependencies
        self.named = named_cache

    def clear_media_cache(self):
        import django_components.cache as c

        cache = c.get_component_media_cache()
        cache.clear()


def announced_urls(html, typ):
    d = assets.parse_doc(str(html))
    urls = {"js": [], "css": []}
    for blob in d.json_blobs:
        j = assets.decode_manager_json(blob)
        if typ == "document":
            urls["js"] += [u for u in j["loadedJsUrls"] if "/components/cache/" in u]
            urls["css"] += [u for u in j["loadedCssUrls"] if "/components/cache/" in u]
        else:
            urls["js"] += [m.group(1) for t in j["toLoadJsTags"] for m in [assets.SRC.search(t)] if m and "/components/cache/" in m.group(1)]
            urls["css"] += [m.group(1) for t in j["toLoadCssTags"] for m in [assets.HREF.search(t)] if m and "/components/cache/" in m.group(1)]
    return urls


def run_history(env, rec, hist, seedinfo):
    """hist: list of steps {"prog": program, "typ": .., "route": .., "clear_before": bool}"""
    fetched_classes = set()
    cleared = False
    builts = []
    try:
        for si, step in enumerate(hist):
            case = {"history": hist, "failing_step": si, "seed": seedinfo, "named_cache": env.named}
            if step["clear_before"]:
                env.clear_media_cache()
                cleared = True
            prog = step["prog"]
            if step.get("reuse") is not None and step["reuse"] < len(builts):
                built = builts[step["reuse"]]
                prog = built.program
            else:
                built = env.build(prog)
                builts.append(built)
            ref = e1run.reference(prog, "django")
            if ref[0] != "ok":
                continue
            rendered = list(ref[2].classes_in_order)
            exp = assets.expected_assets(prog, rendered)
            typ = step["typ"]
            try:
                with env.override_settings(COMPONENTS={"context_behavior": "django", "autodiscover": False, **({"cache": "djc"} if env.named else {})}):
                    if step["route"] == "component":
                        page_cls = type(f"{built.prefix.capitalize()}Page{si}", (env.Component,), {"template": "<html><head></head><body>" + built.page_src + "</body></html>"})
                        out = page_cls.render(context=dict(prog.get("page_ctx", {})), type=typ)
                    else:
                        raw = env.Template("<html><head></head><body>" + built.page_src + "</body></html>").render(env.Context(dict(prog.get("page_ctx", {}))))
                        out = env.render_dependencies(raw, type=typ)
            except Exception as e:  # noqa: BLE001
                rec.violation("render-raised-" + type(e).__name__, case, {"what": str(e)[:400]})
                return None
            urls = announced_urls(out, typ)
            want = {"js": {t for _, t in exp["inline_js"]}, "css": {t for _, t in exp["inline_css"]}}
            bodies = {"js": set(), "css": set()}
            for kind in ("js", "css"):
                for u in urls[kind]:
                    r = env.client.get(u)
                    rec.observe("urls-fetched")
                    body = r.content.decode("utf-8", "replace")
                    if r.status_code != 200:
                        rec.violation("announced-url-not-served", case, {"what": f"GET {u} -> {r.status_code} (render step {si}, type {typ})", "classes": {c: s.get("namekind") for c, s in prog["classes"].items()}})
                        return None
                    ctype = r.headers.get("Content-Type", "")
                    if not ctype.startswith("text/javascript" if kind == "js" else "text/css"):
                        rec.violation("wrong-content-type", case, {"what": f"GET {u} -> {ctype}"})
                        return None
                    if body not in want[kind]:
                        rec.violation("served-foreign-or-wrong-code", case, {"what": f"GET {u} -> {body[:80]!r}, announced by a render of classes with {kind} {sorted(want[kind])}"})
                        return None
                    bodies[kind].add(body)
                    fetched_classes.add(body)
                if bodies[kind] != want[kind]:
                    rec.violation("code-not-announced", case, {"what": f"{kind}: rendered classes have {sorted(want[kind])}, announced URLs serve {sorted(bodies[kind])}"})
                    return None
    finally:
        for b in builts:
            b.dispose()
    return len(fetched_classes) >= 2 and cleared


def fuzz_paths(env, rec, rng, n):
    """Unknown hashes / kinds / input hashes / dots and colons / methods."""
    cls = type("C19Fuzz", (env.Component,), {"template": "x", "js": "/*js:fuzz*/1;", "css": "/*css:fuzz*/a{}"})
    cls.render()
    h = cls._class_hash
    env._keep = cls
    parts = [h, "nope_123456", "", "x", h.upper(), h + "x", "..", "a.b", "a:b", "%2e", "é", "__components", "js", "css"]
    kinds = ["js", "css", "JS", "txt", "", "py", "js.js", "css:js"]
    inputs = [None, "abcdef", "000000", "zzzzzz", "", "a.b", ":", "../x"]
    methods = ["get", "post", "put", "delete", "head", "patch", "options"]
    for i in range(n):
        a, k, inp, m = rng.choice(parts), rng.choice(kinds), rng.choice(inputs), rng.choice(methods)
        path = f"/components/cache/{a}" + (f".{inp}" if inp is not None else "") + f".{k}"
        case = {"kind": "fuzz", "path": path, "method": m}
        rec.case(("fuzz", path, m), nontrivial=True)
        try:
            r = getattr(env.client, m)(path)
        except Exception as e:  # noqa: BLE001
            rec.violation("endpoint-raised-" + type(e).__name__, case, {"what": str(e)[:300]})
            continue
        rec.observe("fuzz-requests")
        body = r.content.decode("utf-8", "replace")
        valid = a == h and k in ("js", "css") and inp is None
        if r.status_code >= 500:
            rec.violation("endpoint-server-error", case, {"what": f"{m.upper()} {path} -> {r.status_code}"})
        elif valid and m == "get":
            if r.status_code != 200 or body != (cls.js if k == "js" else cls.css):
                rec.violation("valid-url-not-served", case, {"what": f"{r.status_code} {body[:60]!r}"})
        elif m not in ("get",) and r.status_code not in (405, 404):
            if not (m == "head" and r.status_code in (200, 405)):
                rec.violation("non-get-not-405", case, {"what": f"{m.upper()} {path} -> {r.status_code}"})
        elif m == "get" and not valid and r.status_code == 200 and body in (cls.js, cls.css):
            rec.violation("invalid-path-served-code", case, {"what": f"GET {path} -> 200 {body[:60]!r}"})
        rec.count(f"fuzz_status:{r.status_code}")


def plan(tier, seed):
    n = 2000 if tier == "quick" else 40000
    nshard = 12 if tier == "quick" else 28
    shards = [{"name": f"hist_{i:02d}", "kind": "hist", "n": n // nshard, "idx": i, "named": i % 3 == 0} for i in range(nshard)]
    shards.append({"name": "fuzz", "kind": "fuzz", "n": 3000 if tier == "quick" else 100000, "named": False})
    shards.append({"name": "big", "kind": "big", "n": 2 if tier == "quick" else 30, "idx": 0, "named": False})
    return shards


def gen_history(rng):
    hist = []
    for s in range(rng.randint(3, 8)):
        for _ in range(10):
            prng = random.Random(rng.random())
            prog = pg.ProgGen(prng, "slots", nclasses=prng.randint(2, 4), size=8, pyrender=True).program()
            if e1run.reference(prog, "django")[0] == "ok":
                break
        assets.add_assets(prog, prng)
        for c in prog["classes"].values():
            # (single inheritance stays: a subclass has a hash, URLs and cache entries of its own even when it inherits
            # its parent's js / css text)
            c.pop("base2", None)
            if isinstance((c.get("media") or {}).get("extend"), list):
                del c["media"]["extend"]
        hist.append({"prog": prog, "typ": rng.choice(["document", "fragment"]), "route": rng.choice(["component", "template"]), "clear_before": s > 0 and rng.random() < 0.35, "reuse": rng.randrange(s) if s and rng.random() < 0.3 else None})
    return hist


def big_history(rng):
    """One page that renders a few hundred component classes, each with js and css (default media cache)."""
    n = rng.randint(160, 320)
    classes = {f"c{i}": {"template": [["text", f"t{i}"]], "data": {}, "inject": [], "js": f"/*js:c{i}*/console.log({i});", "css": f"/*css:c{i}*/.c{i} {{ }}", "namekind": "ascii"} for i in range(n)}
    prog = {"classes": classes, "page": [["comp", f"c{i}", {}, None] for i in range(n)], "page_ctx": {}}
    return [{"prog": prog, "typ": typ, "route": rng.choice(["component", "template"]), "clear_before": False, "reuse": None if k == 0 else 0} for k, typ in enumerate(rng.sample(["fragment", "document"], 2))]


def run_shard(spec, rec):
    env = Env(spec.get("named", False))
    rng = random.Random(f"{spec['seed']}-c19-{spec['name']}")
    if spec["kind"] == "fuzz":
        rec.require("fuzz-requests")
        fuzz_paths(env, rec, rng, spec["n"])
        return
    rec.require("urls-fetched")
    for i in range(spec["n"]):
        hist = gen_history(rng) if spec["kind"] != "big" else big_history(rng)
        if spec["kind"] == "big":
            rec.maxi("max:classes_with_scripts_on_one_page", len(hist[0]["prog"]["classes"]))
        nt = run_history(env, rec, hist, [spec["seed"], spec["name"], i])
        rec.case(hist, nontrivial=bool(nt))
        rec.count("renders", len(hist))
        rec.count("cache_clears", sum(1 for s in hist if s["clear_before"]))
        if nt and rec.want_sample() and i % 13 == 0:
            rec.sample([{"typ": s["typ"], "route": s["route"], "clear_before": s["clear_before"], "reuse": s["reuse"], "classes": {c: {k: v.get(k) for k in ("js", "css", "namekind")} for c, v in s["prog"]["classes"].items()}} for s in hist])


def replay(case, rec):
    env = Env(case.get("named_cache", False))
    rec.case(("replay", 1))
    rec.case(("replay", 2))
    if case.get("kind") == "fuzz":
        rec.note("fuzz cases: re-run the fuzz shard")
        return
    run_history(env, rec, case["history"], case.get("seed"))
