"""C14 - root elements of a component instance, and only they, carry its render id.

Reference-model monitor on parsed HTML: E1 programs built from uniquely named elements
(<e17>..</e17>) are rendered; the final HTML is parsed with html.parser and, element occurrence by
element occurrence in document order, the set of data-djc-id-* markers must equal the set of
instances for which the interpreter says the element is top-level output.  Every component echoes
its own Component.id as the first token of its template, which links model instances to real ids
(and checks that the marker id is the id reported during the render and that ids are distinct).
Deep root chains (a component whose root is a component, depth up to 2000) check the absence of a
recursion limit.
"""
import random
import re
from html.parser import HTMLParser

from vf import e1run
from vf.gen import program as pg

PROP = "C14"
LEVEL = "exploration"
RULE = (
    "E1 programs in the 'roots' flavour: templates with 0..n root elements, text-only roots, nested elements, components as roots "
    "(chains), components in loops / slots / fills, each class echoing Component.id; both context behaviours; the same page again with "
    "every page-level tag written through the dynamic component (un-echoed wrapper ids solved for); plus root chains of "
    "depth 50-300 (quick) / 500-2000 (thorough); distinct by program AST; non-trivial = some element is a root of >=2 instances or "
    "a non-root element exists next to root elements"
)
ASSUMPTIONS = [
    "render ids come from the library's own generator; a duplicate id produced by the RNG itself makes the case inconclusive, not a violation",
    "dynamic-component wrappers (page-level tags written as {% component \"dynamic\" is=... %}) do not echo their id: the check requires one consistent, distinct, otherwise unused id per wrapper on exactly the roots of its target",
]

IDTOK = re.compile(r"\[I(\w+)\]")
MARK = re.compile(r"^data-djc-id-(\w{6})$")
RAWMARK = re.compile(r"\sdata-djc-id-(\w{6})(?==|\s|>|/)")


class P(HTMLParser):
    def __init__(self):
        super().__init__()
        self.elems = []

    def handle_starttag(self, tag, attrs):
        if tag.startswith("e") and tag[1:].isdigit():
            # html.parser lower-cases attribute names; ids are case-sensitive, so read them from the raw tag text
            ids = sorted(RAWMARK.findall(self.get_starttag_text()))
            other = [k for k, _ in attrs if not MARK.match(k)]
            if len(ids) != len(attrs) - len(other):
                ids.append("?unparsed-marker")
            self.elems.append((int(tag[1:]), ids, other))


def check_program(env, rec, prog, seedinfo):
    nontrivial = False
    for mode in ("django", "isolated"):
        ref = e1run.reference(prog, mode)
        if ref[0] != "ok":
            return None
        it = ref[2]
        built = env.build(prog)
        try:
            got = env.render(built, mode, "tag", limit=20 * len(it.instances) + 50, keep_ids=True)
        finally:
            built.dispose()
        case = {"program": prog, "mode": mode, "seed": seedinfo}
        if got[0] != "ok":
            rec.violation("render-failed", case, {"what": repr(got[:3])[:400]})
            return nontrivial
        raw = e1run.RENDERED.sub("", got[2])
        rec.observe("pages-parsed")
        real_ids = IDTOK.findall(raw)
        model_nos = [int(x) for x in IDTOK.findall(ref[1])]
        if len(real_ids) != len(model_nos):
            rec.violation("id-echo-count", case, {"what": f"{len(real_ids)} echoes, model {len(model_nos)}", "html": raw[:600]})
            return nontrivial
        if len(set(real_ids)) != len(real_ids):
            rec.inconc("duplicate-render-id-from-rng")
            return nontrivial
        id2no = dict(zip(real_ids, model_nos))
        p = P()
        p.feed(raw)
        p.close()
        exp = it.elem_occ
        if [u for u, _, _ in p.elems] != [u for u, _ in exp]:
            rec.violation("element-sequence-differs", case, {"what": f"parsed {[u for u, _, _ in p.elems][:30]} model {[u for u, _ in exp][:30]}", "html": raw[:600]})
            return nontrivial
        for (uid, ids, other), (_, nos) in zip(p.elems, exp):
            rec.observe("elements-compared")
            unknown = [i for i in ids if i not in id2no]
            got_nos = sorted(id2no[i] for i in ids if i in id2no)
            if unknown or got_nos != nos:
                rec.violation(
                    "wrong-root-markers",
                    case,
                    {"what": f"element e{uid}: markers of instances {got_nos} (+unknown ids {unknown}), expected instances {nos}", "html": raw[:800]},
                )
                return nontrivial
            if len(nos) >= 2:
                nontrivial = True
                rec.count("elements_shared_by_2plus_instances")
            if not nos:
                rec.count("non_root_elements")
            else:
                rec.count("root_elements")
        if any(not nos for _, nos in exp) and any(nos for _, nos in exp):
            nontrivial = True
        if not check_dynamic(env, rec, prog, mode, ref, seedinfo):
            return nontrivial
    return nontrivial


def check_dynamic(env, rec, prog, mode, ref, seedinfo):
    """Same page with every page-level tag written as {% component "dynamic" is=... %}: each such instance gets a
    wrapper instance whose id is not echoed.  The wrapper's root elements are its target's root elements, so every
    element must carry, besides the echoed ids the model expects, exactly one further id per wrapped instance it is
    a root of - the same id on all roots of that instance, on no other element, distinct from every other id."""
    it = ref[2]
    wrapped = {i.no for i in it.instances if i.parent is None and not getattr(i, "pyrendered", False)}
    if not wrapped:
        return True
    built = env.build(prog)
    try:
        got = env.render(built, mode, "dynamic", limit=40 * len(it.instances) + 50, keep_ids=True)
    finally:
        built.dispose()
    case = {"program": prog, "mode": mode, "variant": "dynamic", "seed": seedinfo}
    if got[0] != "ok":
        rec.violation("render-failed", case, {"what": repr(got[:3])[:400]})
        return False
    raw = e1run.RENDERED.sub("", got[2])
    rec.observe("dynamic-pages-parsed")
    real_ids = IDTOK.findall(raw)
    model_nos = [int(x) for x in IDTOK.findall(ref[1])]
    if len(real_ids) != len(model_nos):
        rec.violation("id-echo-count", case, {"what": f"{len(real_ids)} echoes, model {len(model_nos)}", "html": raw[:600]})
        return False
    if len(set(real_ids)) != len(real_ids):
        rec.inconc("duplicate-render-id-from-rng")
        return False
    id2no = dict(zip(real_ids, model_nos))
    p = P()
    p.feed(raw)
    p.close()
    exp = it.elem_occ
    if [u for u, _, _ in p.elems] != [u for u, _ in exp]:
        rec.violation("element-sequence-differs", case, {"what": f"parsed {[u for u, _, _ in p.elems][:30]} model {[u for u, _ in exp][:30]}", "html": raw[:600]})
        return False
    cand = {}  # wrapped instance -> candidate wrapper ids
    per_elem = []
    for (uid, ids, other), (_, nos) in zip(p.elems, exp):
        unknown = sorted(i for i in ids if i not in id2no)
        got_nos = sorted(id2no[i] for i in ids if i in id2no)
        w = [n for n in nos if n in wrapped]
        if got_nos != nos or len(unknown) != len(w) or len(set(unknown)) != len(unknown):
            rec.violation("wrong-root-markers", case, {"what": f"dynamic: element e{uid}: markers of instances {got_nos} + {len(unknown)} un-echoed ids, expected instances {nos} + {len(w)} wrapper ids", "html": raw[:800]})
            return False
        per_elem.append((uid, set(unknown), w))
        for n in w:
            cand[n] = cand[n] & set(unknown) if n in cand else set(unknown)
    assign = {}
    while cand:
        n = min(cand, key=lambda k: (len(cand[k]), k))
        if not cand[n]:
            rec.violation("wrong-root-markers", case, {"what": f"dynamic: no single wrapper id is shared by all root elements of instance {n}", "html": raw[:800]})
            return False
        u = sorted(cand.pop(n))[0]
        assign[n] = u
        for k in cand:
            cand[k].discard(u)
    for uid, unknown, w in per_elem:
        rec.observe("dynamic-elements-compared")
        if unknown != {assign[n] for n in w}:
            rec.violation("wrong-root-markers", case, {"what": f"dynamic: element e{uid} carries un-echoed ids {sorted(unknown)}; the wrappers of its instances {w} are {sorted(assign[n] for n in w)}", "html": raw[:800]})
            return False
    rec.count("dynamic_wrappers_identified", len(assign))
    return True


def deep_chain(env, rec, depth, mode, width):
    """rec(items): root is another rec until the list is exhausted; leaf renders `width` root elements."""
    from django_components import Component, registry

    name = f"c14rec{depth}_{mode}_{width}"

    class Rec(Component):
        template = "[I{{ cid }}]{% if rest %}{% component '" + name + "' items=rest / %}{% else %}" + "".join(f"<e{i + 1}><e99></e99></e{i + 1}>" for i in range(width)) + "{% endif %}"

        def get_context_data(self, items):
            return {"cid": self.id, "rest": items[1:]}

    registry.register(name, Rec)
    case = {"kind": "chain", "depth": depth, "mode": mode, "width": width}
    try:
        with env.override_settings(COMPONENTS={"context_behavior": mode, "autodiscover": False}):
            try:
                raw = Rec.render(kwargs={"items": list(range(depth))}, render_dependencies=False)
            except RecursionError as e:
                rec.violation("recursion-limit-at-depth", case, {"what": str(e)[:200]})
                return
            except Exception as e:  # noqa: BLE001
                rec.violation("chain-render-failed", case, {"what": f"{type(e).__name__}: {str(e)[:200]}"})
                return
    finally:
        registry.unregister(name)
    rec.observe("pages-parsed")
    raw = e1run.RENDERED.sub("", str(raw))
    ids = IDTOK.findall(raw)
    p = P()
    p.feed(raw)
    p.close()
    if len(ids) != depth or len(set(ids)) != depth:
        if len(ids) == depth:
            rec.inconc("duplicate-render-id-from-rng")
            return
        rec.violation("chain-id-echo-count", case, {"what": f"{len(ids)} echoes / {len(set(ids))} distinct at depth {depth}"})
        return
    for uid, eids, other in p.elems:
        rec.observe("elements-compared")
        want = sorted(ids) if uid != 99 else []
        if eids != want:
            rec.violation("chain-wrong-root-markers", case, {"what": f"e{uid} carries {len(eids)} ids, expected {len(want)}"})
            return
    rec.maxi("max:chain_depth_rendered", depth)


# ---------------------------------------------------------------------------------------
# Markup shard: ordinary HTML at the root of a component - void elements, comments, inline <script> / <style> whose text
# contains "<" or ">" - decided by construction: every top-level element start tag of the instance carries its id (child
# components' roots both ids), nested elements none.
K_RAW = "C14-elements-after-script-or-style-text-containing-lt"
RAW_CONTENTS = ["if (a<b) {}", 'var s = "<div>";', "a > b {}", "x = 1;", 'var e = "</div>";', "for(i=0;i<n;i++){}", ".a::before { content: '<'; }"]
UATTR = re.compile(r'data-u="(\d+)"')


class PU(HTMLParser):
    def __init__(self):
        super().__init__()
        self.elems = []

    def handle_starttag(self, tag, attrs):
        raw = self.get_starttag_text()
        m = UATTR.search(raw)
        if m:
            self.elems.append((int(m.group(1)), sorted(RAWMARK.findall(raw))))

    handle_startendtag = handle_starttag


def gen_markup(rng):
    uid = [0]

    def item(depth):
        uid[0] += 1
        u = uid[0]
        r = rng.random()
        if r < 0.30:
            kids = [item(depth + 1) for _ in range(rng.randint(0, 2))] if depth < 2 else []
            return ["elem", u, rng.choice(["div", "span", "section", "x-card"]), kids]
        if r < 0.45:
            return ["void", u, rng.choice(["br", "img", "input", "hr"])]
        if r < 0.58:
            return ["text", u, rng.choice(["plain words", "a &lt; b", "x"])]
        if r < 0.66:
            return ["comment", u, rng.choice(["note", "c < d", "-x-"])]
        if r < 0.86:
            return ["raw", u, rng.choice(["script", "style"]), rng.choice(RAW_CONTENTS if rng.random() < 0.5 else ["x = 1;", "a > b {}"])]
        return ["child", u]

    return {"kind": "markup", "items": [item(0) for _ in range(rng.randint(2, 6))], "mode": rng.choice(["django", "isolated"])}


def run_markup(env, rec, case):
    env.n += 1
    n = env.n
    pname, cname = f"mk{n}_p", f"mk{n}_c"
    expected = []  # (u, spec) in document order; spec: set of "P" / ("C", k)
    nchild = [0]
    raws = []

    def ser(items, top):
        t = ""
        for it in items:
            k, u = it[0], it[1]
            if k == "elem":
                expected.append((u, {"P"} if top else set()))
                t += f'<{it[2]} data-u="{u}">' + ser(it[3], False) + f"</{it[2]}>"
            elif k == "void":
                expected.append((u, {"P"} if top else set()))
                t += f'<{it[2]} data-u="{u}">'
            elif k == "text":
                t += it[2]
            elif k == "comment":
                t += f"<!-- {it[2]} -->"
            elif k == "raw":
                expected.append((u, {"P"} if top else set()))
                raws.append(it[3])
                t += f'<{it[2]} data-u="{u}">{it[3]}</{it[2]}>'
            else:
                kk = nchild[0]
                nchild[0] += 1
                for cu in (9001, 9002):
                    expected.append((cu, {("C", kk)} | ({"P"} if top else set())))
                t += '{% component "' + cname + '" / %}'
        return t

    src = "[I{{ cid }}]" + ser(case["items"], True)
    gcd = lambda self, **kw: {"cid": self.id}  # noqa: E731
    Child = type(f"Mk{n}C", (env.Component,), {"template": '[J{{ cid }}]<em data-u="9001">c</em><b data-u="9002">d</b>', "get_context_data": gcd})
    Parent = type(f"Mk{n}P", (env.Component,), {"template": src, "get_context_data": gcd})
    env.registry.register(cname, Child)
    env.registry.register(pname, Parent)
    lt_raw = any("<" in r for r in raws)
    try:
        with env.override_settings(COMPONENTS={"context_behavior": case["mode"], "autodiscover": False}):
            try:
                raw = Parent.render(render_dependencies=False)
            except Exception as e:  # noqa: BLE001
                detail = {"what": f"{type(e).__name__}: {str(e)[:200]}", "template": src}
                # (the same mechanism: the "<" inside the script / style text is taken for the start of a tag)
                if isinstance(e, ValueError) and ("ill-formed document" in str(e) or "syntax error" in str(e)) and lt_raw and rec.known_finding(K_RAW, case, detail):
                    return True
                rec.violation("markup-render-raised-" + type(e).__name__, case, detail)
                return True
    finally:
        for nm in (pname, cname):
            try:
                env.registry.unregister(nm)
            except Exception:  # noqa: BLE001
                pass
    rec.observe("pages-parsed")
    raw = e1run.RENDERED.sub("", str(raw))
    pid = IDTOK.findall(raw)
    cids = re.findall(r"\[J(\w+)\]", raw)
    if len(pid) != 1 or len(cids) != nchild[0]:
        rec.violation("markup-id-echo-count", case, {"what": f"{len(pid)} parent echoes, {len(cids)} child echoes for {nchild[0]} children", "html": raw[:400]})
        return True
    if len(set(pid + cids)) != len(pid + cids):
        rec.inconc("duplicate-render-id-from-rng")
        return True
    p = PU()
    p.feed(raw)
    p.close()
    want = [(u, sorted(pid[0] if x == "P" else cids[x[1]] for x in spec)) for u, spec in expected]
    rec.count("markup_elements_compared", len(want))
    rec.observe("elements-compared", len(want))
    if p.elems != want:
        detail = {"what": f"expected {want} got {p.elems}", "template": src, "html": raw[:500]}
        # listed finding: the root-element parser (djc_core_html_parser) does not treat <script> / <style> as raw text, so a
        # "<" inside stops it finding the elements that follow: they (and child placeholders after it) lack THIS instance's id
        # (a "</x>" look-alike in the text is taken for an end tag: the depth count drops, and NESTED elements after it are
        # then taken for roots - the same id too many instead of missing)
        if lt_raw and len(p.elems) == len(want) and all(g[0] == w[0] and (set(g[1]) ^ set(w[1])) <= {pid[0]} for g, w in zip(p.elems, want)):
            first_bad = next(i for i, (g, w) in enumerate(zip(p.elems, want)) if g != w)
            extra = any(set(g[1]) - set(w[1]) for g, w in zip(p.elems, want))
            needle = "</" if extra else "<"
            raw_before = any(k == "raw" and needle in c for (k, c, pos) in _raw_positions(case["items"]) if pos <= first_bad)
            if raw_before and rec.known_finding(K_RAW, case, {"what": detail["what"][:300]}):
                return True
        # the bogus tag can also swallow a following start tag or get the attribute written into an END tag
        # (`</style data-djc-id-..>`), after which the document no longer parses into the same elements: attributed when
        # everything up to and including the first script / style element with "<" in its text is right
        if lt_raw and len(p.elems) != len(want):
            first_raw = min(pos for (k, c, pos) in _raw_positions(case["items"]) if k == "raw" and "<" in c)
            if p.elems[: first_raw + 1] == want[: first_raw + 1] and rec.known_finding(K_RAW, case, {"what": detail["what"][:300]}):
                return True
        rec.violation("markup-wrong-root-markers", case, detail)
    return True


def run_witnesses(spec, rec):
    """Stored witness of the listed finding: KNOWN-FINDING while the defect is there, silent once it is repaired."""
    env = e1run.E1Env()
    for f in spec["findings"]:
        for case in f["witness"]["cases"]:
            rec.case(("witness", f["id"], str(case)[:40]), nontrivial=False)
            run_markup(env, rec, case)
    rec.observe("dynamic-pages-parsed")


def _raw_positions(items):
    """(kind, content, number of data-u elements that start before or at this item) in document order"""
    out = []
    cnt = [0]

    def walk(its):
        for it in its:
            k = it[0]
            if k in ("elem", "void", "raw"):
                cnt[0] += 1
                out.append((k, it[3] if k == "raw" else "", cnt[0] - 1))
                if k == "elem":
                    walk(it[3])
            elif k == "child":
                cnt[0] += 2

    walk(items)
    return out


def plan(tier, seed):
    n = 9000 if tier == "quick" else 100000
    nshard = 14 if tier == "quick" else 30
    shards = [{"name": f"gen_{i:02d}", "kind": "gen", "n": n // nshard, "idx": i} for i in range(nshard)]
    depths = [50, 120, 300] if tier == "quick" else [500, 1000, 2000]
    for d in depths:
        shards.append({"name": f"chain_{d}", "kind": "chain", "depth": d})
    shards.append({"name": "markup", "kind": "markup", "n": 2000 if tier == "quick" else 60000})
    return shards


def run_shard(spec, rec):
    env = e1run.E1Env()
    rec.require("pages-parsed", "elements-compared", "dynamic-pages-parsed")
    if spec["kind"] == "chain":
        for mode in ("django", "isolated"):
            for width in (1, 3):
                rec.case(("chain", spec["depth"], mode, width), nontrivial=True)
                deep_chain(env, rec, spec["depth"], mode, width)
        return
    if spec["kind"] == "markup":
        import json as _json

        rng = random.Random(f"{spec['seed']}-c14-markup")
        for i in range(spec["n"]):
            case = gen_markup(rng)
            run_markup(env, rec, case)
            rec.case(("markup", _json.dumps(case, sort_keys=True)), nontrivial=sum(1 for it in case["items"] if it[0] in ("elem", "void", "raw", "child")) >= 2)
        return
    rng = random.Random(f"{spec['seed']}-c14-{spec['idx']}")
    for i in range(spec["n"]):
        for attempt in range(10):
            prng = random.Random(rng.random())
            g = pg.ProgGen(prng, "roots")
            prog = g.program()
            if all(e1run.reference(prog, m)[0] == "ok" for m in ("django", "isolated")):
                break
            rec.count("regenerated")
        else:
            continue
        nt = check_program(env, rec, prog, [spec["seed"], spec["idx"], i])
        rec.case(prog, nontrivial=bool(nt))
        if nt and rec.want_sample() and i % 41 == 0:
            b = pg.Built(prog, "sample")
            rec.sample({"page": b.page_src[:400], "templates": {c: cls.template[:300] for c, cls in b.classes.items()}})
            b.dispose()


def replay(case, rec):
    env = e1run.E1Env()
    rec.case(("replay", 1))
    rec.case(("replay", 2))
    if case.get("kind") == "chain":
        deep_chain(env, rec, case["depth"], case["mode"], case["width"])
    elif case.get("kind") == "markup":
        run_markup(env, rec, case)
    else:
        check_program(env, rec, case["program"], case.get("seed"))
