"""C13 - html_attrs and Python-passed slot content emit exactly the data given, escaped.

(a) {% html_attrs %}: the rendered attribute string is put into ``<x-probe ...>`` and parsed back
    with html.parser; the (name, value) multiset must equal a 10-line reference merge
    (defaults, overridden by attrs, extra keywords appended with one space; None/False omitted,
    True bare) - for every way of passing the data (positional / keyword dicts, attrs:k= and
    defaults:k= aggregation, ... spreads, repeated keywords).
(b) slot content given to Component.render(): payload ``<&>"'`` must come out escaped exactly once
    unless marked safe or escape_slots_content=False - for str, SafeString, functions returning
    either, Slot instances and normalised slots passed on to a nested render.
(c) js / css that contains its own end tag in any letter case must be refused, never emitted:
    the final document is parsed and the script/style element text must equal the source.
"""
import html
import random
from html.parser import HTMLParser

PROP = "C13"
LEVEL = "exploration"
RULE = (
    "(a) attrs/defaults dicts and extra keyword lists (repeated keywords, attrs:k=v / defaults:k=v, ...spreads, literal and variable "
    "values) over a small colliding name pool (incl. @ : . - # and non-ASCII names) and values with quotes, angle brackets, "
    "ampersands, whitespace, non-ASCII, numbers, bool/None in non-overlapping positions; (b) slot contents x escape flag x "
    "3 nesting shapes; (c) js/css strings with end-tag look-alikes in mixed case; distinct by case description; non-trivial = "
    "(a) at least one overlapping name or a value needing escaping, (b)/(c) always"
)
ASSUMPTIONS = [
    "attribute names are restricted to characters that can form an HTML attribute name (lower-case for html.parser)",
    "appending to/with True is not defined by the statement and is not generated; None / False are 'no value' wherever they occur (nothing is appended for them, an earlier None / False gives way to the first real value)",
    "SafeString values are only generated from text that is already valid escaped attribute content (they are emitted verbatim by design)",
]

NAMES = ["class", "id", "data-x", "@click", ":href", "x.y", "#ref", "é", "hidden", "style", "a_b"]
VALUES = [
    "a", "b c", "", " ", "x\"y", "it's", "<b>", "a&b", "&amp;", "&lt;script&gt;", "\"><script>alert(1)</script>", "' onmouseover='x", "é ü", "日本",
    "a\nb", "a\tb", "  lead", "trail  ", "`", "=", "/>", "\\", "{{ x }}", "{% y %}", "a=\"b\"", "\x00z", "--", "<!--",
]
# SafeString values are emitted verbatim, so they are drawn from text that already is valid escaped attribute content;
# "&amp;" / "&lt;script&gt;" / "a" also occur as plain strings in VALUES (equal by ==, different by type)
SAFE_VALUES = ["s1", "s-2 s3", "safe_é", "", "&amp;", "&lt;script&gt;", "a", "x &quot;q&quot; &#x27;"]
# 1 == 1.0 == True and 0 == 0.0 == False compare (and hash) equal but render differently
NUMBERS = [0, 5, -1, 1.5, 1, 1.0, 0.0]


class P(HTMLParser):
    def __init__(self):
        super().__init__(convert_charrefs=True)
        self.tags = []
        self.data = {}
        self._open = None

    def handle_starttag(self, tag, attrs):
        self.tags.append((tag, attrs))
        if tag in ("script", "style"):
            self._open = (tag, len(self.tags))
            self.data[self._open] = ""

    def handle_endtag(self, tag):
        self._open = None

    def handle_data(self, data):
        if self._open:
            self.data[self._open] += data


class Env:
    def __init__(self):
        from vf import boot

        boot.boot()
        from django.template import Context, Template
        from django.utils.safestring import SafeString, mark_safe

        from django_components import Component, Slot, registry

        self.Context, self.Template, self.mark_safe, self.SafeString = Context, Template, mark_safe, SafeString
        self.Component, self.Slot, self.registry = Component, Slot, registry
        self.tcache = {}

        class C13Inner(Component):
            template = '<i>{% slot "s" default / %}</i>'

        class C13Outer(Component):
            template = "<u>{{ inner }}</u>"

            def get_context_data(self, flag=True):
                # pass the already normalised slots on to a nested render
                return {"inner": C13Inner.render(slots=self.input.slots, escape_slots_content=flag, render_dependencies=False)}

        class C13Outer2(Component):
            template = '<u>{% component "c13inner" %}{% fill "s" %}{% slot "s" / %}{% endfill %}{% endcomponent %}</u>'

        registry.register("c13inner", C13Inner)
        self.Inner, self.Outer, self.Outer2 = C13Inner, C13Outer, C13Outer2

    def template(self, src):
        t = self.tcache.get(src)
        if t is None:
            t = self.tcache[src] = self.Template(src)
            if len(self.tcache) > 3000:
                self.tcache.clear()
        return t


# ---------------------------------------------------------------------------------------
# (a) html_attrs
def gen_attrs_case(rng):
    def val():
        r = rng.random()
        if r < 0.62:
            return ["s", rng.choice(VALUES)]
        if r < 0.72:
            return ["safe", rng.choice(SAFE_VALUES)]
        if r < 0.84:
            return ["n", rng.choice(NUMBERS)]
        return ["c", rng.choice([None, True, False])]

    names = rng.sample(NAMES, rng.randint(2, 5))
    defaults = {n: val() for n in names if rng.random() < 0.5} if rng.random() < 0.8 else None
    attrs = {n: val() for n in names if rng.random() < 0.5} if rng.random() < 0.8 else None
    kws = []
    for _ in range(rng.randint(0, 5)):
        n = rng.choice(names)
        kws.append([n, val(), rng.choice(["var", "lit", "spread"])])
    style = {
        "attrs": rng.choice(["pos", "kw", "agg", "spread"]),
        "defaults": rng.choice(["pos", "kw", "agg"]),
    }
    return {"kind": "attrs", "defaults": defaults, "attrs": attrs, "kws": kws, "style": style}


def sanitize_attrs_case(case):
    """Drop the combinations the statement leaves undefined: a bool/None value meeting another value
    for the same name in an *append* position."""
    final = {}
    for src in ("defaults", "attrs"):
        for k, v in (case[src] or {}).items():
            final[k] = v
    kws = []
    for k, v, how in case["kws"]:
        prev = final.get(k)
        # True meeting another value stays undefined; None / False are "no value" wherever they occur: nothing is appended
        # for them and an earlier None / False is replaced by the first real value
        if prev is not None and ((prev[0] == "c" and prev[1] is True) or (v[0] == "c" and v[1] is True)):
            continue
        if prev is None or (prev[0] == "c" and prev[1] is not True):
            final[k] = v
        elif not (v[0] == "c"):
            final[k] = ["s", "x"]
        kws.append([k, v, how])
    case["kws"] = kws
    return case


def pyval(env, v):
    if v[0] == "safe":
        return env.mark_safe(v[1])
    return v[1]


def expected_attrs(env, case):
    final = {}
    final.update({k: pyval(env, v) for k, v in (case["defaults"] or {}).items()})
    final.update({k: pyval(env, v) for k, v in (case["attrs"] or {}).items()})
    for k, v, _ in case["kws"]:
        v = pyval(env, v)
        if k in final:
            if v is None or v is False:
                continue
            if final[k] is None or final[k] is False:
                final[k] = v
                continue
            final[k] = str(final[k]) + " " + str(v)
        else:
            final[k] = v
    out = []
    for k, v in final.items():
        if v is None or v is False:
            continue
        out.append((k.lower(), None if v is True else html.unescape(str(v)) if isinstance(v, env.SafeString) else str(v)))
    return sorted(out, key=lambda kv: (kv[0], kv[1] is None, kv[1] or ""))


def lit(v):
    """Template literal for a value (only used for literal-safe content)."""
    if v[0] == "n":
        return str(v[1])
    if v[0] == "c":
        return {None: "None", True: "True", False: "False"}[v[1]]
    s = v[1]
    return '"' + s.replace("\\", "\\\\").replace('"', '\\"') + '"'


def literal_ok(v):
    if v[0] in ("n", "c"):
        return True
    s = v[1]
    # literals are SafeStrings in Django: only characters that need no escaping, and no template syntax
    return all(ch.isalnum() or ch in " -_.é" for ch in s)


def build_attrs_template(env, case):
    ctx = {}
    parts = []
    st = case["style"]
    agg_used = set()

    def put_dict(name, d, how):
        if d is None:
            return
        if how == "pos":
            ctx[name + "_d"] = {k: pyval(env, v) for k, v in d.items()}
            parts.append(name + "_d")
        elif how == "kw":
            ctx[name + "_d"] = {k: pyval(env, v) for k, v in d.items()}
            parts.append(f"{name}={name}_d")
        elif how == "spread":
            ctx[name + "_w"] = {name: {k: pyval(env, v) for k, v in d.items()}}
            parts.append(f"...{name}_w")
        else:
            agg_used.add(name)
            for i, (k, v) in enumerate(d.items()):
                if k.startswith(":"):
                    # not expressible as an aggregate key; handled by the caller choosing another style
                    raise KeyError(k)
                if literal_ok(v) and i % 2 == 0:
                    parts.append(f"{name}:{k}={lit(v)}")
                else:
                    ctx[f"{name}_v{i}"] = pyval(env, v)
                    parts.append(f"{name}:{k}={name}_v{i}")

    a_how, d_how = st["attrs"], st["defaults"]
    if a_how == "agg" and any(k.startswith(":") for k in (case["attrs"] or {})):
        a_how = "kw"
    if d_how == "agg" and any(k.startswith(":") for k in (case["defaults"] or {})):
        d_how = "kw"
    if d_how == "pos" and (a_how != "pos" or case["attrs"] is None):
        # `defaults` can be positional only as the 2nd positional argument
        d_how = "kw"
    if a_how == "pos" and case["attrs"] is None and case["defaults"] is not None and st["defaults"] == "pos":
        d_how = "kw"
    put_dict("attrs", case["attrs"], a_how)
    put_dict("defaults", case["defaults"], d_how)
    # positional arguments must precede keywords
    pos = [p for p in parts if "=" not in p and not p.startswith("...")]
    rest = [p for p in parts if p not in pos]
    parts = pos + rest
    spread_acc = None
    for i, (k, v, how) in enumerate(case["kws"]):
        if k.startswith(":"):
            how = "spread"  # keyword keys starting with ':' are not documented tag syntax (DESIGN.md §4)
        if how == "lit" and literal_ok(v):
            parts.append(f"{k}={lit(v)}")
            spread_acc = None
        elif how == "spread":
            if spread_acc is not None and k not in spread_acc:
                spread_acc[k] = pyval(env, v)
            else:
                spread_acc = {k: pyval(env, v)}
                ctx[f"sp{i}"] = spread_acc
                parts.append(f"...sp{i}")
        else:
            ctx[f"kv{i}"] = pyval(env, v)
            parts.append(f"{k}=kv{i}")
            spread_acc = None
    src = "<x-probe {% html_attrs " + " ".join(parts) + " %}>"
    return src, ctx


class _Quiet:
    """Recorder stand-in for re-running the history of a replayed case."""

    def __getattr__(self, name):
        return lambda *a, **k: None


def run_attrs_case(env, rec, case, history=None):
    src, ctx = build_attrs_template(env, case)
    exp = expected_attrs(env, case)
    if history:
        # a wrong result may depend on what the process rendered before (a value-keyed memo inside the formatter): the
        # replay file carries the preceding cases of the shard so that the replay starts from the same history
        case = dict(case, history=list(history))
    try:
        out = env.template(src).render(env.Context(ctx))
    except Exception as e:  # noqa: BLE001
        rec.report("html_attrs-raised-" + type(e).__name__, case, {"what": f"{type(e).__name__}: {str(e)[:200]}", "template": src, "expected": exp})
        return
    rec.observe("attribute-strings-parsed")
    p = P()
    p.feed(out + "</x-probe>")
    p.close()
    if len(p.tags) != 1 or p.tags[0][0] != "x-probe":
        rec.violation("attribute-breakout", case, {"what": f"output parsed into tags {[t for t, _ in p.tags]}", "output": out, "template": src})
        return
    got = sorted(p.tags[0][1], key=lambda kv: (kv[0], kv[1] is None, kv[1] or ""))
    if got != exp:
        rec.violation("wrong-attribute-set", case, {"what": f"parsed {got} expected {exp}", "output": out, "template": src})


# ---------------------------------------------------------------------------------------
# (b) slot content escaping
PAYLOAD = "<&>\"'"
ESC1 = "&lt;&amp;&gt;&quot;&#x27;"
ESC2 = "&amp;lt;&amp;amp;&amp;gt;&amp;quot;&amp;#x27;"


def level_of(html):
    n = [html.count(PAYLOAD), html.count(ESC1), html.count(ESC2)]
    return n


def run_slot_case(env, rec, case):
    form, flag, shape, tok = case["form"], case["flag"], case["shape"], case["tok"]
    text = f"[{tok}]{PAYLOAD}[/{tok}]"
    safe = form in ("safe", "fn-safe", "slot-safe")
    if form == "str":
        content = text
    elif form == "safe":
        content = env.mark_safe(text)
    elif form == "fn-str":
        content = lambda ctx, data, ref: text  # noqa: E731
    elif form == "fn-safe":
        content = lambda ctx, data, ref: env.mark_safe(text)  # noqa: E731
    elif form == "slot-str":
        content = env.Slot(content_func=lambda ctx, data, ref: text)
    else:
        content = env.Slot(content_func=lambda ctx, data, ref: env.mark_safe(text))
    try:
        if case.get("prior"):
            env.Outer2.render(slots={"s": content}, escape_slots_content=not flag, render_dependencies=False)
            env.Inner.render(slots={"s": content}, escape_slots_content=not flag, render_dependencies=False)
        if shape == "direct":
            out = env.Inner.render(slots={"s": content}, escape_slots_content=flag, render_dependencies=False)
        elif shape == "repass-python":
            out = env.Outer.render(kwargs={"flag": flag}, slots={"s": content}, escape_slots_content=flag, render_dependencies=False)
        else:
            out = env.Outer2.render(slots={"s": content}, escape_slots_content=flag, render_dependencies=False)
    except Exception as e:  # noqa: BLE001
        rec.report("slot-render-raised-" + type(e).__name__, case, {"what": str(e)[:300]})
        return
    rec.observe("slot-outputs-checked")
    want = 0 if (safe or not flag) else 1
    n0, n1, n2 = level_of(out)
    got = 0 if n0 == 1 and n1 == 0 else 1 if n1 == 1 and n0 == 0 and n2 == 0 else 2 if n2 == 1 else -1
    if got != want or f"[{tok}]" not in out:
        rec.violation("slot-escaped-%s-times-expected-%s" % (got, want), case, {"what": f"output {out!r}"})


# ---------------------------------------------------------------------------------------
# (c) js / css end-tag guard
def gen_asset_case(rng, i):
    kind = rng.choice(["js", "css"])
    word = "script" if kind == "js" else "style"
    mixed = "".join(ch.upper() if rng.random() < 0.5 else ch for ch in word)
    closer = rng.choice([">", " >", "\n>", "/>", " x>", ""])
    variants = [
        ("end-tag", "</" + mixed + closer),
        ("end-tag-lower", "</" + word + ">"),
        ("escaped", "<\\/" + word + ">"),
        ("spaced", "< /" + word + ">"),
        ("other-tag", "</div>"),
        ("open-tag", "<" + word + ">"),
        ("none", ""),
    ]
    name, needle = rng.choice(variants)
    pre = rng.choice(["var a = 1;", "/* c */", "a{}", "x='", ""])
    post = rng.choice([";b()", " .z{}", "'", ""])
    return {"kind": "asset", "asset": kind, "variant": name, "content": pre + needle + post + f"/*{i}*/", "i": i}


def terminates(kind, content):
    """Would this text terminate its own raw-text element (HTML spec: '</' + name, ASCII
    case-insensitive, followed by whitespace, '/' or '>')?"""
    import re

    word = "script" if kind == "js" else "style"
    return re.search(r"</" + word + r"[\s/>]", content, re.I) is not None or content.lower().endswith("</" + word)


def run_asset_case(env, rec, case):
    kind, content = case["asset"], case["content"]
    attrs = {"template": f"<html><head></head><body><p>a{case['i']}</p></body></html>", kind: content}
    cls = type(f"C13A{case['i']}x{abs(hash(content)) % 10 ** 6}", (env.Component,), attrs)
    try:
        out = cls.render(type="document")
        raised = None
    except Exception as e:  # noqa: BLE001
        out, raised = None, e
    rec.observe("asset-cases-checked")
    if raised is not None:
        rec.count("asset_refused")
        if not isinstance(raised, RuntimeError):
            rec.violation("asset-guard-wrong-exception", case, {"what": repr(raised)[:200]})
        return
    # emitted: the element's parsed text must be exactly the source
    p = P()
    p.feed(out)
    p.close()
    el = "script" if kind == "js" else "style"
    texts = [v for (t, _), v in p.data.items() if t == el]
    if content.strip() not in [t.strip() for t in texts]:
        rec.violation("asset-terminates-its-own-element", case, {"what": f"{el} element texts {texts!r} do not contain the source {content!r}", "terminates_per_spec": terminates(kind, content)})
    elif terminates(kind, content):
        rec.violation("asset-terminates-its-own-element", case, {"what": "end tag emitted"})
    else:
        rec.count("asset_emitted_intact")


# ---------------------------------------------------------------------------------------
def plan(tier, seed):
    n = 120000 if tier == "quick" else 1_500_000
    nshard = 14 if tier == "quick" else 30
    shards = [{"name": f"attrs_{i:02d}", "kind": "attrs", "n": n // nshard, "idx": i} for i in range(nshard)]
    shards.append({"name": "slots", "kind": "slots", "reps": 20 if tier == "quick" else 400})
    shards.append({"name": "assets", "kind": "assets", "n": 1500 if tier == "quick" else 30000})
    return shards


def run_shard(spec, rec):
    env = Env()
    if spec["kind"] == "attrs":
        rec.require("attribute-strings-parsed")
        rng = random.Random(f"{spec['seed']}-c13-{spec['idx']}")
        import collections

        hist = collections.deque(maxlen=400)
        for i in range(spec["n"]):
            case = sanitize_attrs_case(gen_attrs_case(rng))
            run_attrs_case(env, rec, case, hist)
            hist.append(case)
            names = [k for k in (case["defaults"] or {})] + [k for k in (case["attrs"] or {})] + [k for k, _, _ in case["kws"]]
            vals = [v for d in (case["defaults"], case["attrs"]) if d for v in d.values()] + [v for _, v, _ in case["kws"]]
            overlap = len(set(names)) != len(names)
            needs_esc = any(v[0] == "s" and any(ch in v[1] for ch in "<>&\"'") for v in vals)
            rec.case(case, nontrivial=overlap or needs_esc)
            if overlap:
                rec.count("attrs_cases_with_overlap")
            if needs_esc:
                rec.count("attrs_cases_needing_escape")
            if any(k == a and how for a, _, how in case["kws"] for k in [a] if [x[0] for x in case["kws"]].count(a) > 1):
                rec.count("attrs_cases_with_repeated_keyword")
            if rec.want_sample() and i % 331 == 0:
                rec.sample({"template": build_attrs_template(env, case)[0], "expected": expected_attrs(env, case)})
    elif spec["kind"] == "slots":
        rec.require("slot-outputs-checked")
        k = 0
        for rep in range(spec["reps"]):
            for form in ("str", "safe", "fn-str", "fn-safe", "slot-str", "slot-safe"):
                for flag in (True, False):
                    for shape in ("direct", "repass-python", "repass-template"):
                        k += 1
                        case = {"kind": "slot", "form": form, "flag": flag, "shape": shape, "tok": f"t{k}"}
                        rec.case(("slot", form, flag, shape, rep), nontrivial=True)
                        run_slot_case(env, rec, case)
                        if form.startswith("slot-"):
                            # history: the SAME Slot object was handed to an earlier render with the opposite flag (and to
                            # another component): each render escapes according to its own flag
                            k += 1
                            case = {"kind": "slot", "form": form, "flag": flag, "shape": shape, "tok": f"t{k}", "prior": "same-slot-object-rendered-with-the-opposite-flag"}
                            rec.case(("slot", form, flag, shape, rep, "prior"), nontrivial=True)
                            run_slot_case(env, rec, case)
                        if rep == 0 and rec.want_sample() and k % 7 == 0:
                            rec.sample(case)
        rec.exhaustive = False
    else:
        rec.require("asset-cases-checked")
        rng = random.Random(f"{spec['seed']}-c13-assets")
        for i in range(spec["n"]):
            case = gen_asset_case(rng, i)
            rec.case(("asset", case["asset"], case["content"]), nontrivial=True)
            rec.count("asset_variant:" + case["variant"])
            run_asset_case(env, rec, case)
            if rec.want_sample() and i % 211 == 0:
                rec.sample(case)


def replay(case, rec):
    env = Env()
    rec.case(("replay", 1))
    rec.case(("replay", 2))
    if case["kind"] == "attrs":
        for h in case.get("history") or []:
            run_attrs_case(env, _Quiet(), h)
        run_attrs_case(env, rec, {k: v for k, v in case.items() if k != "history"})
    elif case["kind"] == "slot":
        run_slot_case(env, rec, case)
    else:
        run_asset_case(env, rec, case)
