"""C16 - component assets = own class plus the bases selected by Media.extend.

Reference model over generated class hierarchies (real Component subclasses created with type()):
  files(cls) = own(cls)  U  U{ files(b) : b in selected(cls) },   selected = all bases | none | listed
per medium; set equality, no duplicates, relative order of every declared list preserved when the
declared lists are mutually consistent; the result must be identical for every first-access order
(fresh class objects per order: leaf first, root first, shuffled, through instances).
Pair rule: template/js/css (or *_file) come from the nearest class in the MRO that defines either
member; both members in one class -> ImproperlyConfigured.  *_file forms use real files in a temp
component directory; a last family imports real modules from that directory to observe relative
path resolution under different access orders of .media / .js / .css / .template.
"""
import importlib
import itertools
import os
import random
import shutil
import sys
import tempfile

PROP = "C16"
LEVEL = "exploration"
RULE = (
    "hierarchies of 1-4 classes exhaustively over (bases subset of earlier classes, Media form in {absent, empty, js str, js list, css "
    "list, css dict}, extend in {absent, True, False, [earlier classes]}) with a 3-file name pool per medium, plus seeded hierarchies of "
    "5-6 classes incl. diamonds; each accessed in 4 first-access orders; pair-rule hierarchies (template, js, css AND the *_file members read back) over inline / *_file / None / both; module "
    "based components with files next to the module; distinct by hierarchy description; non-trivial = >=2 classes with Media or >=1 pair override"
)
ASSUMPTIONS = [
    "order is judged only when the union of all declared lists is acyclic (Django's Media warns and picks an order otherwise)",
    "Media entries are plain relative path strings",
]

JS = ["a.js", "b.js", "c.js"]
CSS = ["x.css", "y.css", "z.css"]
MEDIA_FORMS = [
    None,  # absent
    {},  # class Media: pass
    {"js": "a.js"},
    {"js": ["b.js", "a.js"]},
    {"js": ["a.js", "c.js"], "css": ["x.css"]},
    {"css": {"all": ["x.css", "y.css"], "print": "z.css"}},
    {"css": "y.css", "js": ["c.js"]},
]


class Env:
    def __init__(self):
        from vf import boot

        self.tmp = tempfile.mkdtemp(prefix="vf-c16-")
        self.comp_root = os.path.join(self.tmp, "comps")
        os.makedirs(os.path.join(self.comp_root, "c16files"))
        for i in range(4):
            for ext, body in (("js", "console.log(%d)"), ("css", ".c%d{}"), ("html", "<b>t%d</b>")):
                with open(os.path.join(self.comp_root, "c16files", f"f{i}.{ext}"), "w") as f:
                    f.write(body % i)
        boot.boot(components={"dirs": [self.comp_root], "app_dirs": []})
        from django.core.exceptions import ImproperlyConfigured

        from django_components import Component

        self.Component, self.IC = Component, ImproperlyConfigured
        self.n = 0
        sys.path.insert(0, self.comp_root)

    def cleanup(self):
        shutil.rmtree(self.tmp, ignore_errors=True)


# ---------------------------------------------------------------------------------------
# Part A: Media inheritance
def norm_own(form):
    """-> ({'js': [...]}, {'css': {type: [...]}}) of declared lists"""
    js, css = [], {}
    if not form:
        return js, css
    j = form.get("js")
    if isinstance(j, str):
        js = [j]
    elif j:
        js = list(j)
    c = form.get("css")
    if isinstance(c, str):
        css = {"all": [c]}
    elif isinstance(c, (list, tuple)):
        css = {"all": list(c)}
    elif isinstance(c, dict):
        css = {k: ([v] if isinstance(v, str) else list(v)) for k, v in c.items()}
    return js, css


def build_classes(env, spec, tag):
    """spec: list of {"bases": [idx...], "media": form idx or None, "extend": "absent"|True|False|[idx...]}"""
    classes = []
    for i, c in enumerate(spec):
        bases = tuple(classes[b] for b in c["bases"]) or (env.Component,)
        attrs = {"template": f"t{i}"}
        form = MEDIA_FORMS[c["media"]]
        if form is not None:
            m = {}
            for k, v in form.items():
                m[k] = (dict((kk, list(vv) if isinstance(vv, list) else vv) for kk, vv in v.items()) if isinstance(v, dict) else list(v) if isinstance(v, list) else v)
            if c["extend"] != "absent":
                m["extend"] = c["extend"] if isinstance(c["extend"], bool) else [classes[e] for e in c["extend"]]
            attrs["Media"] = type("Media", (), m)
        classes.append(type(f"C16_{tag}_{i}", bases, attrs))
    return classes


def reference_media(spec):
    """-> list per class of (js set, css {type: set}, declared lists [(medium key, list)])"""
    out = []
    for i, c in enumerate(spec):
        form = MEDIA_FORMS[c["media"]]
        js, css = norm_own(form)
        ext = c["extend"] if form is not None else "absent"
        if ext == "absent" or ext is True:
            sel = list(c["bases"])
        elif ext is False:
            sel = []
        else:
            sel = list(ext)
        fjs = set(js)
        fcss = {k: set(v) for k, v in css.items()}
        decl = [("js", js)] + [("css:" + k, v) for k, v in css.items()]
        for b in sel:
            bjs, bcss, bdecl = out[b]
            fjs |= bjs
            for k, v in bcss.items():
                fcss.setdefault(k, set()).update(v)
            decl = decl + bdecl
        out.append((fjs, fcss, decl))
    return out


def order_ok(result, lists):
    """Relative order of every declared list preserved in result (only judged if constraints are acyclic)."""
    edges = set()
    for lst in lists:
        for a, b in zip(lst, lst[1:]):
            if a != b:
                edges.add((a, b))
    # cycle check
    nodes = {x for e in edges for x in e}
    indeg = {n: 0 for n in nodes}
    for a, b in edges:
        indeg[b] += 1
    q = [n for n in nodes if indeg[n] == 0]
    seen = 0
    adj = {}
    for a, b in edges:
        adj.setdefault(a, []).append(b)
    while q:
        n = q.pop()
        seen += 1
        for m in adj.get(n, []):
            indeg[m] -= 1
            if indeg[m] == 0:
                q.append(m)
    if seen != len(nodes):
        return None  # inconsistent declarations: unspecified
    pos = {x: i for i, x in enumerate(result)}
    for a, b in edges:
        if a in pos and b in pos and pos[a] > pos[b]:
            return f"{a} declared before {b} but rendered after it"
    return True


def observe_media(cls, via_instance=False):
    m = (cls().media if via_instance else cls.media)
    return list(m._js), {k: list(v) for k, v in m._css.items()}


def run_media_case(env, rec, case):
    spec = case["spec"]
    env.n += 1
    if env.n % 500 == 0:
        # the library keeps the resolved Media of every class it has ever seen in a module-level dict (strong keys);
        # the classes of finished cases are dropped from it so that a shard of 150k hierarchies stays within memory
        import gc

        import django_components.component_media as _cm

        _cm.media_cache.clear()
        gc.collect()
    n = len(spec)
    ref = reference_media(spec)
    orders = [list(range(n - 1, -1, -1)), list(range(n)), case.get("shuffle") or list(range(n)), list(range(n - 1, -1, -1))]
    results = []
    for oi, order in enumerate(orders):
        try:
            classes = build_classes(env, spec, f"{env.n}_{oi}")
            got = {}
            for i in order:
                got[i] = observe_media(classes[i], via_instance=(oi == 3))
        except Exception as e:  # noqa: BLE001
            rec.violation("media-access-raised-" + type(e).__name__, case, {"what": f"order {order}: {e}"})
            return
        results.append(got)
        rec.observe("media-reads", n)
    # access-order independence
    for oi in range(1, len(results)):
        for i in range(n):
            if results[oi][i] != results[0][i]:
                rec.violation("media-depends-on-access-order", case, {"what": f"class {i}: order {orders[0]} gives {results[0][i]}, order {orders[oi]} gives {results[oi][i]}"})
                return
    for i in range(n):
        js, css = results[0][i]
        ejs, ecss, decl = ref[i]
        prob = None
        if len(set(js)) != len(js) or any(len(set(v)) != len(v) for v in css.values()):
            prob = f"class {i}: duplicate entries in {js} {css}"
        elif set(js) != ejs or {k: set(v) for k, v in css.items() if v} != {k: v for k, v in ecss.items() if v}:
            prob = f"class {i}: media js={js} css={css}, reference js={sorted(ejs)} css={ {k: sorted(v) for k, v in ecss.items()} }"
        else:
            for key, res in [("js", js)] + [("css:" + k, v) for k, v in css.items()]:
                ok = order_ok(res, [lst for k2, lst in decl if k2 == key])
                if ok is None:
                    rec.count("order_unspecified_inconsistent_lists")
                elif ok is not True:
                    prob = f"class {i} {key}: {ok} (result {res})"
        if prob:
            rec.violation("wrong-media", case, {"what": prob})
            return


def enum_specs(nmax):
    """All hierarchies with up to nmax classes (bases = any non-empty MRO-legal subset of earlier classes or none)."""

    def rec(prefix):
        i = len(prefix)
        if i >= 1:
            yield list(prefix)
        if i == nmax:
            return
        base_opts = [()]
        for r in (1, 2):
            for combo in itertools.combinations(range(i), r):
                base_opts.append(combo)
        for bases in base_opts:
            # MRO legality is checked by actually building plain classes
            for media in range(len(MEDIA_FORMS)):
                exts = ["absent"] if MEDIA_FORMS[media] is None else ["absent", False] + ([[0]] if i >= 1 else []) + ([[i - 1]] if i >= 2 else [])
                for ext in exts:
                    yield from rec(prefix + [{"bases": list(bases), "media": media, "extend": ext}])

    return rec([])


def mro_legal(spec):
    cls = []
    try:
        for c in spec:
            cls.append(type("L", tuple(cls[b] for b in c["bases"]) or (object,), {}))
    except TypeError:
        return False
    return True


# ---------------------------------------------------------------------------------------
# Part B1: pair rule with inline / file / none / both
PAIR_OPTS = ["absent", "inline", "file", "none-none", "both"]


def run_pair_case(env, rec, case):
    spec = case["spec"]  # list of {"bases": [...], "template": opt, "js": opt, "css": opt}
    env.n += 1
    classes = []
    expected = []
    for i, c in enumerate(spec):
        bases = tuple(classes[b] for b in c["bases"]) or (env.Component,)
        attrs = {}
        both = False
        for attr, ext in (("template", "html"), ("js", "js"), ("css", "css")):
            o = c[attr]
            if o == "inline":
                attrs[attr] = f"{attr}-inline-{i}"
            elif o == "file":
                attrs[attr + "_file"] = f"c16files/f{i % 4}.{ext}"
            elif o == "none-none":
                attrs[attr] = None
                attrs[attr + "_file"] = None
            elif o == "both":
                attrs[attr] = f"{attr}-inline-{i}"
                attrs[attr + "_file"] = f"c16files/f{i % 4}.{ext}"
                both = True
        try:
            cls = type(f"C16P_{env.n}_{i}", bases, attrs)
        except env.IC:
            if not both:
                rec.violation("pair-rejected-without-both-members", case, {"what": f"class {i}"})
            else:
                rec.count("pair_both_rejected")
            return
        except Exception as e:  # noqa: BLE001
            rec.violation("pair-class-creation-raised-" + type(e).__name__, case, {"what": str(e)[:200]})
            return
        if both:
            rec.violation("pair-both-members-accepted", case, {"what": f"class {i} defines both members of a pair"})
            return
        classes.append(cls)
    # reference: nearest class in the MRO defining either member
    for i, cls in enumerate(classes):
        exp = {}
        for attr, ext, fmt in (("template", "html", "<b>t%d</b>"), ("js", "js", "console.log(%d)"), ("css", "css", ".c%d{}")):
            val = None
            for k in cls.__mro__:
                j = next((jj for jj, cc in enumerate(classes) if cc is k), None)
                if j is None:
                    continue
                o = spec[j][attr]
                if o == "inline":
                    val = f"{attr}-inline-{j}"
                    break
                if o == "file":
                    val = fmt % (j % 4)
                    break
            exp[attr] = val
            # the *_file member of the pair comes from the same (nearest defining) class: its file name, or None when that class
            # defined the inlined member
            fval = None
            for k in cls.__mro__:
                j = next((jj for jj, cc in enumerate(classes) if cc is k), None)
                if j is None:
                    continue
                o = spec[j][attr]
                if o == "inline":
                    break
                if o == "file":
                    fval = f"c16files/f{j % 4}.{ext}"
                    break
            exp[attr + "_file"] = fval
        expected.append(exp)
    order = case.get("order") or list(range(len(classes)))
    for i in order:
        cls = classes[i]
        for attr in case.get("attr_order", ["template", "js", "css"]):
            try:
                got = getattr(cls() if case.get("via_instance") else cls, attr)
            except Exception as e:  # noqa: BLE001
                rec.violation("pair-access-raised-" + type(e).__name__, case, {"what": f"class {i}.{attr}: {e}"})
                return
            rec.observe("pair-reads")
            if got != expected[i][attr]:
                rec.violation("wrong-pair-value", case, {"what": f"class {i}.{attr} = {got!r}, nearest definition gives {expected[i][attr]!r}"})
                return
            try:
                gotf = getattr(cls() if case.get("via_instance") else cls, attr + "_file")
            except Exception as e:  # noqa: BLE001
                rec.violation("pair-access-raised-" + type(e).__name__, case, {"what": f"class {i}.{attr}_file: {e}"})
                return
            rec.observe("pair-reads")
            if gotf != expected[i][attr + "_file"]:
                rec.violation("wrong-pair-file-value", case, {"what": f"class {i}.{attr}_file = {gotf!r}, nearest definition gives {expected[i][attr + '_file']!r}"})
                return


# ---------------------------------------------------------------------------------------
# Part B2: module-based components, relative resolution vs access order
MODULE_SRC = '''from django_components import Component

class Card{n}(Component):
    {tmpl}
    {js}
    {css}
    class Media:
        js = {mjs!r}
        css = {mcss!r}

class Sub{n}(Card{n}):
    class Media:
        js = ["sub{n}.js"]
'''


def run_module_case(env, rec, case):
    env.n += 1
    n = env.n
    pkg = f"c16card{n}"
    d = os.path.join(env.comp_root, pkg)
    os.makedirs(d)
    for fn, body in ((f"card{n}.js", "JS"), (f"card{n}.css", "CSS"), (f"card{n}.html", "<i>HTML</i>"), (f"extra{n}.js", "E"), (f"sub{n}.js", "S")):
        with open(os.path.join(d, fn), "w") as f:
            f.write(body)
    src = MODULE_SRC.format(
        n=n,
        tmpl=f'template_file = "card{n}.html"' if case["tmpl_file"] else f'template = "<i>inline</i>"',
        js=f'js_file = "card{n}.js"' if case["js_file"] else "",
        css=f'css_file = "card{n}.css"' if case["css_file"] else "",
        mjs=[f"extra{n}.js", "not_a_local_file.js"],
        mcss=[f"card{n}.css"],
    )
    with open(os.path.join(d, f"mod{n}.py"), "w") as f:
        f.write(src)
    importlib.invalidate_caches()
    outs = []
    try:
        for oi, order in enumerate(case["orders"]):
            modname = f"{pkg}.mod{n}"
            for m in [m for m in sys.modules if m.startswith(pkg)]:
                del sys.modules[m]
            mod = importlib.import_module(modname)
            card, sub = getattr(mod, f"Card{n}"), getattr(mod, f"Sub{n}")
            seen = {}
            try:
                for who, attr in order:
                    cls = card if who == "card" else sub
                    v = getattr(cls, attr)
                    if attr == "media":
                        v = (list(v._js), {k: list(x) for k, x in v._css.items()})
                    seen[(who, attr)] = v
                # final complete read
                final = {}
                for who, cls in (("card", card), ("sub", sub)):
                    m = cls.media
                    final[(who, "media")] = (list(m._js), {k: list(x) for k, x in m._css.items()})
                    for attr in ("js", "css", "template"):
                        final[(who, attr)] = getattr(cls, attr)
            except Exception as e:  # noqa: BLE001
                rec.violation("module-access-raised-" + type(e).__name__, case, {"what": f"order {order}: {e}"})
                return
            outs.append((order, final))
            rec.observe("module-reads", len(final))
        base_order, base = outs[0]
        exp_card_js = [f"{pkg}/extra{n}.js", "not_a_local_file.js"]
        for order, final in outs:
            if final != base:
                diff = [k for k in base if base[k] != final[k]]
                rec.violation("module-assets-depend-on-access-order", case, {"what": f"order {base_order} vs {order}: differs at {diff}: {[(base[k], final[k]) for k in diff][:2]}"})
                return
            if final[("card", "media")][0] != exp_card_js:
                rec.violation("module-media-paths-not-resolved", case, {"what": f"Card.media js {final[('card', 'media')][0]} expected {exp_card_js}"})
                return
    finally:
        for m in [m for m in sys.modules if m.startswith(pkg)]:
            del sys.modules[m]
        shutil.rmtree(d, ignore_errors=True)


# ---------------------------------------------------------------------------------------
def plan(tier, seed):
    shards = []
    nenum = 3 if tier == "quick" else 4
    nsh = 12 if tier == "quick" else 40
    for i in range(nsh):
        shards.append({"name": f"enum{nenum}_{i:02d}", "kind": "enum", "nmax": nenum, "i": i, "of": nsh})
    for i in range(2 if tier == "quick" else 8):
        shards.append({"name": f"rand_{i}", "kind": "rand", "n": 1500 if tier == "quick" else 30000, "idx": i})
    shards.append({"name": "pairs", "kind": "pairs", "n": 4000 if tier == "quick" else 150000})
    shards.append({"name": "modules", "kind": "modules", "n": 60 if tier == "quick" else 1500})
    return shards


def run_shard(spec, rec):
    env = Env()
    try:
        kind = spec["kind"]
        if kind == "enum":
            rec.require("media-reads")
            k = 0
            for s in enum_specs(spec["nmax"]):
                k += 1
                if k % spec["of"] != spec["i"]:
                    continue
                if not mro_legal(s):
                    continue
                case = {"kind": "media", "spec": s}
                nt = sum(1 for c in s if MEDIA_FORMS[c["media"]]) >= 2
                rec.case(s, nontrivial=nt)
                run_media_case(env, rec, case)
                if nt and rec.want_sample() and k % 4001 == 0:
                    rec.sample(case)
            rec.exhaustive = True
        elif kind == "rand":
            rec.require("media-reads")
            rng = random.Random(f"{spec['seed']}-c16-{spec['idx']}")
            for _ in range(spec["n"]):
                n = rng.randint(4, 6)
                s = []
                for i in range(n):
                    nb = rng.choice([0, 1, 1, 2, 2, 3]) if i else 0
                    bases = sorted(rng.sample(range(i), min(nb, i)), reverse=rng.random() < 0.5)
                    media = rng.randrange(len(MEDIA_FORMS))
                    ext = "absent"
                    if MEDIA_FORMS[media] is not None:
                        r = rng.random()
                        ext = "absent" if r < 0.4 else True if r < 0.5 else False if r < 0.7 else sorted(rng.sample(range(i), rng.randint(0, min(2, i)))) if i else "absent"
                    s.append({"bases": bases, "media": media, "extend": ext})
                if not mro_legal(s):
                    continue
                sh = list(range(n))
                rng.shuffle(sh)
                case = {"kind": "media", "spec": s, "shuffle": sh}
                rec.case(s, nontrivial=True)
                if any(len(c["bases"]) >= 2 for c in s):
                    rec.count("hierarchies_with_multiple_inheritance")
                run_media_case(env, rec, case)
            rec.exhaustive = False
        elif kind == "pairs":
            rec.require("pair-reads")
            rng = random.Random(f"{spec['seed']}-c16-pairs")
            for i in range(spec["n"]):
                n = rng.randint(1, 5)
                s = []
                for j in range(n):
                    nb = rng.choice([0, 1, 1, 2]) if j else 0
                    bases = sorted(rng.sample(range(j), min(nb, j)), reverse=rng.random() < 0.5)
                    w = [5, 4, 4, 2, 0.4]
                    s.append({"bases": bases, "template": rng.choices(PAIR_OPTS, w)[0], "js": rng.choices(PAIR_OPTS, w)[0], "css": rng.choices(PAIR_OPTS, w)[0]})
                if not mro_legal(s):
                    continue
                order = list(range(n))
                rng.shuffle(order)
                ao = ["template", "js", "css"]
                rng.shuffle(ao)
                case = {"kind": "pair", "spec": s, "order": order, "attr_order": ao, "via_instance": rng.random() < 0.3}
                rec.case(case, nontrivial=any(c[a] != "absent" for c in s[1:] for a in ("template", "js", "css")) if n > 1 else False)
                run_pair_case(env, rec, case)
                if rec.want_sample() and i % 397 == 0:
                    rec.sample(case)
        else:
            rec.require("module-reads")
            rng = random.Random(f"{spec['seed']}-c16-mod")
            reads = [(w, a) for w in ("card", "sub") for a in ("media", "js", "css", "template")]
            for i in range(spec["n"]):
                orders = [[("card", "js"), ("card", "media")]]
                for _ in range(3):
                    o = rng.sample(reads, rng.randint(1, 4))
                    orders.append(o)
                orders.append([("sub", "media")])
                orders.append([("card", "media")])
                case = {"kind": "module", "tmpl_file": rng.random() < 0.6, "js_file": rng.random() < 0.6, "css_file": rng.random() < 0.5, "orders": orders}
                rec.case(case, nontrivial=True)
                run_module_case(env, rec, case)
                if rec.want_sample() and i % 29 == 0:
                    rec.sample(case)
    finally:
        env.cleanup()


def replay(case, rec):
    env = Env()
    rec.case(("replay", 1))
    rec.case(("replay", 2))
    try:
        if case["kind"] == "media":
            run_media_case(env, rec, case)
        elif case["kind"] == "pair":
            run_pair_case(env, rec, case)
        else:
            case["orders"] = [[tuple(x) for x in o] for o in case["orders"]]
            run_module_case(env, rec, case)
    finally:
        env.cleanup()
