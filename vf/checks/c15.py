"""C15 - registries behave as dictionaries and keep the tag library consistent.

History + executable model: every mutator sequence up to a length bound on a fresh
ComponentRegistry bound to a private Library; after *every* step all observers are evaluated
(all(), get(n) per name, set(library.tags), identity of the protected tag function) and
compared with a plain-dict model that also predicts the exception class of each step.
"""
import itertools
import random

PROP = "C15"
LEVEL = "exploration"
RULE = (
    "all sequences of register(name,class) [3 names incl. a protected tag name x 3 classes], unregister(name), "
    "clear(), switch-formatter() (settings given as a getter) of the stated length on a fresh registry + private Library, for 5 configurations "
    "(default/shorthand formatter x protected tags on/off, plus default formatter with its own tag protected); "
    "observers all()/get()/library.tags checked after every step against a dict model; distinct by (config, op tuple); "
    "non-trivial = at least one successful register followed by an unregister/clear/conflicting register; "
    "plus seeded long histories on two registries side by side"
)
ASSUMPTIONS = [
    "a pre-existing *unprotected* tag that collides with a component's start tag may be overwritten by design (DESIGN.md §4): such tags are not generated",
    "registries under test use private Library instances (as in the quantifier)",
]

NAMES = ["a", "b", "slot"]
NCLS = 3
CONFIGS = [
    ("default", []),
    ("default", ["slot"]),
    ("shorthand", []),
    ("shorthand", ["slot"]),
    ("default", ["slot", "component"]),
]


def all_ops():
    ops = [("reg", n, c) for n in range(len(NAMES)) for c in range(NCLS)]
    ops += [("unreg", n, None) for n in range(len(NAMES))]
    ops.append(("clear", None, None))
    # the registry's settings may be a getter "so the settings can respond to changes": the tag formatter (and so the tag a
    # name maps to) switches between calls
    ops.append(("fmt", None, None))
    return ops


def plan(tier, seed):
    length = 5 if tier == "quick" else 6
    nops = len(all_ops())
    prefixes = list(itertools.product(range(nops), repeat=2))
    nshard = 15 if tier == "quick" else 45
    shards = [{"name": f"seq_l{length}_{i:02d}", "kind": "seq", "length": length, "prefixes": prefixes[i::nshard]} for i in range(nshard)]
    for i in range(1 if tier == "quick" else 3):
        shards.append({"name": f"pair_{i}", "kind": "pair", "n": 3000 if tier == "quick" else 40000, "idx": i})
    return shards


class Env:
    def __init__(self):
        from vf import boot

        boot.boot()
        from django.template import Library

        import django_components.component_registry as cr
        from django_components import (
            AlreadyRegistered,
            Component,
            ComponentRegistry,
            NotRegistered,
            RegistrySettings,
            TagProtectedError,
            component_formatter,
            component_shorthand_formatter,
        )
        from django_components.library import mark_protected_tags

        self.Library = Library
        self.cr = cr
        self.ComponentRegistry = ComponentRegistry
        self.RegistrySettings = RegistrySettings
        self.mark = mark_protected_tags
        self.exc = {"AlreadyRegistered": AlreadyRegistered, "NotRegistered": NotRegistered, "TagProtectedError": TagProtectedError}
        self.fmt = {"default": component_formatter, "shorthand": component_shorthand_formatter}
        self.classes = [type(f"C15Cls{i}", (Component,), {"template": f"c{i}"}) for i in range(NCLS)]

    def fresh(self, fmt, protected):
        lib = self.Library()
        pre = {}

        def mk(name):
            def fn(parser, token):  # pragma: no cover - never compiled
                raise AssertionError(name)

            fn.__name__ = "pre_" + name
            return fn

        pre["pre"] = mk("pre")
        for p in protected:
            pre[p] = mk(p)
        for k, f in pre.items():
            lib.tags[k] = f
        if protected:
            self.mark(lib, list(protected))
        cell = {"fmt": fmt}
        reg = self.ComponentRegistry(library=lib, settings=lambda _reg: self.RegistrySettings(context_behavior="django", tag_formatter=self.fmt[cell["fmt"]]))
        reg._vf_cell = cell
        # harness hygiene only: registries announce themselves in a process-global list
        try:
            lst = self.cr.all_registries
            if lst and lst[-1] is reg:
                lst.pop()
        except Exception:
            pass
        return reg, lib, pre


def start_tag(fmt, name):
    return "component" if fmt == "default" else name


class RegModel:
    """Plain dict name -> class, plus for every registered name the tag it uses.  When the same class is registered again under
    a name after the formatter changed, the statement allows a no-op (old tag kept) or a move to the new tag: ``use`` then holds
    both candidates until the library's tag table tells which one it was (``narrow``); either way the table must equal the
    pre-existing tags plus exactly the tags in use."""

    def __init__(self, fmt, protected, pre):
        self.fmt, self.protected, self.pre = fmt, set(protected), pre
        self.d = {}
        self.use = {}  # name -> set of candidate tags

    def step(self, op):
        kind, n, c = op
        if kind == "fmt":
            self.fmt = "shorthand" if self.fmt == "default" else "default"
            return None
        if kind == "reg":
            name = NAMES[n]
            if name in self.d and self.d[name] != c:
                return "AlreadyRegistered"
            t = start_tag(self.fmt, name)
            if t in self.protected:
                return "TagProtectedError"
            if name in self.d:
                self.use[name] = self.use[name] | {t}
            else:
                self.use[name] = {t}
            self.d[name] = c
            return None
        if kind == "unreg":
            name = NAMES[n]
            if name not in self.d:
                return "NotRegistered"
            del self.d[name]
            del self.use[name]
            return None
        self.d.clear()
        self.use.clear()
        return None

    def narrow(self, tags):
        """True iff some choice of a non-empty subset of candidate tags per registered name explains ``tags`` (a component
        registered again under a changed formatter may use the old tag, the new one, or both - but nothing else, and nothing
        once it is unregistered); narrows the candidates to the tags that occur in such a choice."""
        names = sorted(self.use)
        per_name = []
        for n in names:
            c = sorted(self.use[n])
            per_name.append([sub for r in range(1, len(c) + 1) for sub in itertools.combinations(c, r)])
        ok = []
        for choice in itertools.product(*per_name):
            if set(self.pre).union(*choice) == tags:
                ok.append(choice)
        if not ok:
            return False
        for i, n in enumerate(names):
            self.use[n] = set().union(*[ch[i] for ch in ok])
        return True

    def tags(self):
        return set(self.pre) | {min(v) for v in self.use.values()}


def apply(env, reg, op):
    kind, n, c = op
    try:
        if kind == "fmt":
            reg._vf_cell["fmt"] = "shorthand" if reg._vf_cell["fmt"] == "default" else "default"
        elif kind == "reg":
            reg.register(NAMES[n], env.classes[c])
        elif kind == "unreg":
            reg.unregister(NAMES[n])
        else:
            reg.clear()
    except Exception as e:  # noqa: BLE001
        for k, cls in env.exc.items():
            if type(e) is cls:
                return k
        return "other:" + type(e).__name__
    return None


def observe(env, reg, lib, model, pre):
    """Returns None or a description of the first mismatch."""
    got_all = reg.all()
    exp_all = {n: env.classes[c] for n, c in model.d.items()}
    if got_all != exp_all:
        return f"all() = {sorted(got_all)} (model {sorted(exp_all)})"
    for k, v in got_all.items():
        if v is not exp_all[k]:
            return f"all()[{k!r}] is the wrong class"
    # the returned mapping must be a copy (dictionary semantics of an accessor)
    got_all["__probe__"] = None
    if "__probe__" in reg.all():
        return "all() exposes the internal mapping"
    for name in NAMES:
        try:
            g = reg.get(name)
            got = ("ok", g)
        except Exception as e:  # noqa: BLE001
            got = ("exc", type(e).__name__)
        exp = ("ok", env.classes[model.d[name]]) if name in model.d else ("exc", "NotRegistered")
        if got != exp:
            return f"get({name!r}) -> {got!r}, model {exp!r}"
    tags = set(lib.tags)
    if not model.narrow(tags):
        return f"library.tags = {sorted(tags)}, model: pre-existing {sorted(model.pre)} + one of {({n: sorted(v) for n, v in model.use.items()})} per registered name"
    for k, f in pre.items():
        if k in model.protected or k == "pre":
            if lib.tags.get(k) is not f:
                return f"pre-existing tag {k!r} was replaced or removed"
    return None


def run_seq(env, cfg, seq):
    fmt, protected = cfg
    reg, lib, pre = env.fresh(fmt, protected)
    model = RegModel(fmt, protected, pre)
    for i, op in enumerate(seq):
        exp = model.step(op)
        got = apply(env, reg, op)
        if got != exp:
            return i, f"{op} raised {got}, model expects {exp}"
        prob = observe(env, reg, lib, model, pre)
        if prob:
            return i, f"after {op}: {prob}"
    return None


def nontrivial(seq):
    reg_seen = False
    for kind, n, c in seq:
        if kind == "reg":
            if reg_seen:
                return True
            reg_seen = True
        elif reg_seen:
            return True
    return False


def fmt_op(op):
    kind, n, c = op
    if kind == "reg":
        return f"register({NAMES[n]!r}, C{c})"
    if kind == "unreg":
        return f"unregister({NAMES[n]!r})"
    if kind == "fmt":
        return "switch-formatter()"
    return "clear()"


def run_shard(spec, rec):
    env = Env()
    ops = all_ops()
    rec.require("observer-evaluations")
    nobs = 0
    if spec["kind"] == "seq":
        length = spec["length"]
        for pfx in spec["prefixes"]:
            head = [ops[i] for i in pfx]
            for tail in itertools.product(ops, repeat=length - len(head)):
                seq = head + list(tail)
                nt = nontrivial(seq)
                for ci, cfg in enumerate(CONFIGS):
                    r = run_seq(env, cfg, seq)
                    nobs += length
                    if r is not None:
                        rec.violation("registry-model", {"kind": "seq", "config": ci, "seq": seq}, {"step": r[0], "what": r[1], "ops": [fmt_op(o) for o in seq], "cfg": cfg})
                rec.case(("seq", tuple(seq)), nontrivial=nt, n=len(CONFIGS))
                if nt and rec.want_sample() and hash(tuple(seq)) % 7919 == 0:
                    rec.sample({"configs": CONFIGS, "ops": [fmt_op(o) for o in seq]})
        rec.exhaustive = True
    else:
        rng = random.Random(f"{spec['seed']}-c15pair-{spec['idx']}")
        for _ in range(spec["n"]):
            cfgs = [rng.randrange(len(CONFIGS)) for _ in range(2)]
            seq = [(rng.randrange(2), rng.choice(ops)) for _ in range(rng.randint(6, 40))]
            case = {"kind": "pair", "configs": cfgs, "seq": seq}
            r = run_pair(env, case)
            nobs += 2 * len(seq)
            rec.case(("pair", tuple(cfgs), tuple((w, tuple(o)) for w, o in seq)), nontrivial=True)
            if r is not None:
                rec.violation("registry-model-pair", case, {"step": r[0], "what": r[1]})
            elif rec.want_sample() and rng.random() < 0.01:
                rec.sample({"configs": [CONFIGS[c] for c in cfgs], "ops": [f"R{w}.{fmt_op(o)}" for w, o in seq]})
        rec.exhaustive = False
    rec.observe("observer-evaluations", nobs)
    rec.count("steps_observed", nobs)


def run_pair(env, case):
    regs = []
    for ci in case["configs"]:
        fmt, protected = CONFIGS[ci]
        reg, lib, pre = env.fresh(fmt, protected)
        regs.append((reg, lib, pre, RegModel(fmt, protected, pre)))
    for i, (w, op) in enumerate(case["seq"]):
        op = tuple(op)
        reg, lib, pre, model = regs[w]
        exp = model.step(op)
        got = apply(env, reg, op)
        if got != exp:
            return i, f"R{w}.{fmt_op(op)} raised {got}, model expects {exp}"
        for j, (reg2, lib2, pre2, model2) in enumerate(regs):
            prob = observe(env, reg2, lib2, model2, pre2)
            if prob:
                return i, f"after R{w}.{fmt_op(op)}: registry {j}: {prob}"
    return None


def replay(case, rec):
    env = Env()
    rec.case(("replay", 1))
    rec.case(("replay", 2))
    if case["kind"] == "seq":
        r = run_seq(env, CONFIGS[case["config"]], [tuple(o) for o in case["seq"]])
    else:
        r = run_pair(env, case)
    if r is not None:
        rec.violation("registry-model", case, {"step": r[0], "what": r[1]})
