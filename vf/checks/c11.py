"""C11 - a tag accepts its arguments exactly when the equivalent Python call would.

Oracle = the *real Python call*: for each generated signature the probe
``def render(self, context, <sig>): return locals()`` is compiled once; each argument sequence
is turned into call source (positionals as names, keywords as ``**{key: value}`` segments, in
the tag's order) and compiled/evaluated, so acceptance, bindings, duplicates and ordering errors
are CPython's own.  The same sequence is pushed through the real ``BaseNode`` machinery
(``NodeMeta.wrapper_render`` -> resolve_params -> validate_params -> render) for a node class
whose render is (i) the plain function (fast ``__code__`` path) and (ii) a callable object that
only exposes ``__signature__`` (fallback path), each in two renderings (all arguments written
out / adjacent arguments packed into ``*list`` and ``**dict`` spreads), and for a stratified
sample through a real ``{% tag %}`` compiled from template source.
"""
import itertools
import random

PROP = "C11"
LEVEL = "exploration"
RULE = (
    "signatures = all sequences po* pk* [*args] ko* [**kw] (defaults trailing among positionals, any subset of "
    "keyword-only) with up to N parameters; argument sequences = all sequences up to length L over {positional, "
    "keyword naming each parameter, unknown keyword, non-identifier keyword, reserved-word keyword}; each in 2 "
    "validation paths x 2 renderings (plain / packed into spreads); distinct by (signature, sequence); non-trivial "
    "= signature has >=1 parameter and the sequence >=1 argument"
)
ASSUMPTIONS = [
    "a rejection must be TypeError; SyntaxError is accepted only when a positional argument follows a keyword one",
    "keys containing ':' (aggregation) are not generated here (C02 covers them)",
]


NAMES = "abcde"


def gen_signatures(nmax):
    """Yield signatures as tuples of (kind, name, has_default)."""
    out = []
    for n in range(0, nmax + 1):
        # choose counts: po, pk, va(0/1), ko, vk(0/1)
        for po in range(n + 1):
            for pk in range(n + 1 - po):
                for va in (0, 1):
                    for vk in (0, 1):
                        ko = n - po - pk - va - vk
                        if ko < 0:
                            continue
                        npos = po + pk
                        for ndef in range(npos + 1):  # trailing defaults among positionals
                            for kodef in itertools.product((False, True), repeat=ko):
                                sig = []
                                names = iter(NAMES)
                                for i in range(po):
                                    sig.append(("po", next(names), i >= npos - ndef))
                                for i in range(pk):
                                    sig.append(("pk", next(names), po + i >= npos - ndef))
                                if va:
                                    sig.append(("va", "args", False))
                                for i in range(ko):
                                    sig.append(("ko", next(names), kodef[i]))
                                if vk:
                                    sig.append(("vk", "kw", False))
                                out.append(tuple(sig))
    return out


def sig_source(sig):
    parts = []
    seen_po = any(k == "po" for k, _, _ in sig)
    last_po = max([i for i, (k, _, _) in enumerate(sig) if k == "po"], default=-1)
    star_done = False
    for i, (kind, name, d) in enumerate(sig):
        if kind == "ko" and not star_done:
            if not any(k == "va" for k, _, _ in sig):
                parts.append("*")
            star_done = True
        if kind == "va":
            parts.append("*args")
            star_done = True
        elif kind == "vk":
            parts.append("**kw")
        else:
            parts.append(f"{name}=('D','{name}')" if d else name)
        if seen_po and i == last_po:
            parts.append("/")
    return ", ".join(parts)


def item_pool(sig, extra_self=False):
    pool = [("p", None)]
    for kind, name, _ in sig:
        if kind in ("po", "pk", "ko"):
            pool.append(("k", name))
        else:
            # a keyword named like the *args / **kw parameter itself: Python puts it into **kw (or rejects it without **kw)
            pool.append(("k", name))
    pool.append(("k", "zz"))
    pool.append(("k", "data-x"))
    pool.append(("k", "class"))
    if extra_self:
        pool.append(("k", "self"))
        pool.append(("k", "context"))
    return pool


# ---------------------------------------------------------------------------------------
class FakeValue:
    def __init__(self, v, spread=None):
        self.v, self.spread = v, spread

    def resolve(self, context):
        return self.v

    def serialize(self):
        return repr(self.v)


class FakeAttr:
    def __init__(self, key, value):
        self.key, self.value = key, value


class CallableRender:
    """A render implementation without ``__code__``: forces the signature-based validator."""

    def __init__(self, fn):
        import inspect

        self.fn = fn
        self.__signature__ = inspect.signature(fn)
        self.__name__ = "render"
        self.__qualname__ = "render"
        self.__doc__ = None
        self.__module__ = __name__

    def __call__(self, /, *a, **k):  # positional-only: a keyword argument named "self" must reach fn's **kwargs
        return self.fn(*a, **k)


class Env:
    def __init__(self):
        from vf import boot

        boot.boot()
        from django.template import Context

        from django_components import BaseNode

        self.BaseNode = BaseNode
        self.ctx = Context({})
        self.cache = {}

    def nodes_for(self, sig):
        if sig in self.cache:
            return self.cache[sig]
        src = f"def render(self, context, {sig_source(sig)}):\n    return locals()\n" if sig else "def render(self, context):\n    return locals()\n"
        ns = {}
        exec(compile(src, "<c11-probe>", "exec"), ns)
        fn = ns["render"]
        fast = type("C11Fast", (self.BaseNode,), {"tag": "c11probe", "render": fn})
        slow = type("C11Slow", (self.BaseNode,), {"tag": "c11probe", "render": CallableRender(fn)})
        self.cache[sig] = (fn, fast, slow, src)
        if len(self.cache) > 4000:
            self.cache.pop(next(iter(self.cache)))
        return self.cache[sig]


def oracle(fn, seq):
    """Real Python call.  Returns ("ok", bindings) | ("TypeError", msg) | ("SyntaxError", msg)."""
    parts = []
    vals = {}
    for i, (t, key) in enumerate(seq):
        vals[f"v{i}"] = ("V", i)
        parts.append(f"v{i}" if t == "p" else f"**{{{key!r}: v{i}}}")
    src = "probe(None, None" + "".join(", " + p for p in parts) + ")"
    try:
        code = compile(src, "<c11-call>", "eval")
    except SyntaxError as e:
        return ("SyntaxError", str(e))
    try:
        res = eval(code, {"probe": fn, **vals})
    except TypeError as e:
        return ("TypeError", str(e))
    res = dict(res)
    res.pop("self", None)
    res.pop("context", None)
    return ("ok", res)


def build_attrs(seq, packed):
    """Tag parameters for the sequence; ``packed`` groups adjacent items into spreads."""
    attrs = []
    if not packed:
        for i, (t, key) in enumerate(seq):
            attrs.append(FakeAttr(None if t == "p" else key, FakeValue(("V", i))))
        return attrs
    i = 0
    n = len(seq)
    while i < n:
        t = seq[i][0]
        if t == "p":
            vals = []
            while i < n and seq[i][0] == "p":
                vals.append(("V", i))
                i += 1
            attrs.append(FakeAttr(None, FakeValue(vals, spread="*")))
        else:
            d = {}
            while i < n and seq[i][0] == "k" and seq[i][1] not in d:
                d[seq[i][1]] = ("V", i)
                i += 1
            attrs.append(FakeAttr(None, FakeValue(d, spread="**")))
    return attrs


def run_impl(env, nodecls, seq, packed):
    node = nodecls(params=build_attrs(seq, packed), node_id="c11xxx")
    try:
        res = node.render(env.ctx)
    except TypeError as e:
        return ("TypeError", str(e))
    except SyntaxError as e:
        return ("SyntaxError", str(e))
    except Exception as e:  # noqa: BLE001
        return ("other:" + type(e).__name__, str(e))
    res = dict(res)
    res.pop("self", None)
    res.pop("context", None)
    return ("ok", res)


def pos_after_kw(seq):
    seen = False
    for t, _ in seq:
        if t == "k":
            seen = True
        elif seen:
            return True
    return False


def compare(exp, got, seq):
    """None if consistent with the statement, else a description."""
    if exp[0] == "ok":
        if got[0] != "ok":
            return f"Python accepts (bindings {exp[1]}) but the tag raised {got[0]}: {got[1][:160]}"
        if got[1] != exp[1]:
            return f"bindings differ: python {exp[1]} tag {got[1]}"
        return None
    if got[0] == "ok":
        return f"Python rejects ({exp[0]}: {exp[1][:120]}) but the tag accepted with bindings {got[1]}"
    if got[0] == "TypeError":
        return None
    if got[0] == "SyntaxError" and pos_after_kw(seq):
        return None
    return f"rejected with {got[0]} ({got[1][:120]}); python: {exp[0]}"


def classify_known(sig, seq, exp, got):
    """No listed findings for C11: the two defects this check found (positional-only handling,
    repeated non-identifier keywords) were repaired by fix: commits; their defect models were
    deleted so that a regression is reported as a fresh violation."""
    return None


def seq_key(sig, seq):
    return (tuple(sig), tuple(seq))


def check_case(env, rec, sig, seq, want_sample=False):
    fn, fast, slow, src = env.nodes_for(sig)
    exp = oracle(fn, seq)
    rec.observe("python-call-oracle")
    for path, cls in (("fast", fast), ("fallback", slow)):
        for packed in (False, True):
            if packed and not seq:
                continue
            got = run_impl(env, cls, seq, packed)
            rec.observe("tag-executions")
            prob = compare(exp, got, seq)
            if prob:
                case = {"sig": [list(p) for p in sig], "seq": [list(s) for s in seq], "path": path, "packed": packed}
                rec.report("binding-mismatch", case, {"what": prob, "signature": src.split("\n")[0]}, known=classify_known(sig, seq, exp, got))
    rec.count("python_accepts" if exp[0] == "ok" else "python_rejects")
    if want_sample:
        rec.sample({"signature": src.split("\n")[0], "args": [("pos" if t == "p" else k + "=") for t, k in seq], "python": exp[0]})


def plan(tier, seed):
    if tier == "quick":
        N, L, nshard = 4, 4, 15
        tmpl_n, rnd_n = 1500, 0
    else:
        N, L, nshard = 5, 5, 64
        tmpl_n, rnd_n = 20000, 150000
    shards = [{"name": f"enum_{i:02d}", "kind": "enum", "N": N, "L": L, "i": i, "of": nshard} for i in range(nshard)]
    shards.append({"name": "tmpl", "kind": "tmpl", "N": min(N, 4), "n": tmpl_n})
    if rnd_n:
        for i in range(4):
            shards.append({"name": f"rand5_{i}", "kind": "rand", "N": 5, "L": 5, "n": rnd_n // 4, "idx": i})
    return shards


def run_shard(spec, rec):
    env = Env()
    rec.require("python-call-oracle", "tag-executions")
    if spec["kind"] == "enum":
        sigs = gen_signatures(spec["N"])
        mine = sigs[spec["i"] :: spec["of"]]
        for sig in mine:
            pool = item_pool(sig)
            for ln in range(spec["L"] + 1):
                for seq in itertools.product(pool, repeat=ln):
                    nt = bool(sig) and bool(seq)
                    rec.case(seq_key(sig, seq), nontrivial=nt)
                    check_case(env, rec, sig, seq, want_sample=nt and rec.want_sample() and hash(seq_key(sig, seq)) % 3001 == 0)
        rec.count("signatures", len(mine))
        rec.exhaustive = True
    elif spec["kind"] == "rand":
        rng = random.Random(f"{spec['seed']}-c11rand-{spec['idx']}")
        sigs = [s for s in gen_signatures(spec["N"]) if len(s) == spec["N"]]
        for _ in range(spec["n"]):
            sig = rng.choice(sigs)
            pool = item_pool(sig, extra_self=True)
            seq = tuple(rng.choice(pool) for _ in range(rng.randint(0, spec["L"] + 1)))
            rec.case(seq_key(sig, seq), nontrivial=bool(seq))
            check_case(env, rec, sig, seq, want_sample=rec.want_sample() and rng.random() < 0.001)
        rec.exhaustive = False
    else:
        shard_tmpl(env, spec, rec)


# ---------------------------------------------------------------------------------------
# through a real template tag
def shard_tmpl(env, spec, rec):
    from django.template import Context, Template

    from django_components.templatetags.component_tags import register as library

    rng = random.Random(f"{spec['seed']}-c11tmpl")
    sigs = gen_signatures(spec["N"])
    rec.require("template-tag-executions")
    for ci in range(spec["n"]):
        sig = rng.choice(sigs)
        pool = item_pool(sig)
        seq = tuple(rng.choice(pool) for _ in range(rng.randint(0, 4)))
        case = {"kind": "tmpl", "sig": [list(p) for p in sig], "seq": [list(s) for s in seq], "layout": rng.randrange(1 << 16)}
        prob, known = run_tmpl_case(env, case, library, Template, Context)
        rec.observe("template-tag-executions")
        rec.case(("tmpl", seq_key(sig, seq), case["layout"]), nontrivial=bool(sig) and bool(seq))
        if prob:
            rec.report("binding-mismatch-template", case, {"what": prob}, known=known)
    rec.exhaustive = False


def run_tmpl_case(env, case, library, Template, Context):
    sig = tuple(tuple(p) for p in case["sig"])
    seq = tuple(tuple(s) for s in case["seq"])
    rng = random.Random(case["layout"])
    fn, fast, slow, src = env.nodes_for(sig)
    exp = oracle(fn, seq)
    box = []

    def render(self, context, *a, **k):
        r = fn(self, context, *a, **k)
        box.append(r)
        return ""

    # build a node class with the same signature through the public decorator
    ns = {"_fn": fn, "_box": box}
    psrc = f"def c11tag(self, context, {sig_source(sig)}):\n    r = locals()\n    _box.append(r)\n    return ''\n" if sig else "def c11tag(self, context):\n    _box.append(locals())\n    return ''\n"
    exec(compile(psrc, "<c11-tmpl-probe>", "exec"), ns)
    from django_components import template_tag

    tagname = "c11tag"
    template_tag(library, tag=tagname)(ns["c11tag"])
    try:
        # write the argument list as template source; values come from the context
        ctxd = {}
        parts = []
        i = 0
        n = len(seq)
        while i < n:
            t, key = seq[i]
            mode = rng.choice(["plain", "spread"])
            if t == "p":
                if mode == "plain":
                    ctxd[f"v{i}"] = ("V", i)
                    parts.append(f"v{i}")
                    i += 1
                else:
                    vals = []
                    j = i
                    while j < n and seq[j][0] == "p" and (j == i or rng.random() < 0.7):
                        vals.append(("V", j))
                        j += 1
                    ctxd[f"l{i}"] = vals
                    parts.append(f"...l{i}")
                    i = j
            else:
                if mode == "plain":
                    ctxd[f"v{i}"] = ("V", i)
                    parts.append(f"{key}=v{i}")
                    i += 1
                else:
                    d = {}
                    j = i
                    while j < n and seq[j][0] == "k" and seq[j][1] not in d and (j == i or rng.random() < 0.7):
                        d[seq[j][1]] = ("V", j)
                        j += 1
                    ctxd[f"d{i}"] = d
                    parts.append(f"...d{i}")
                    i = j
        source = "{% " + tagname + " " + " ".join(parts) + " %}"
        try:
            Template(source).render(Context(ctxd))
            got = ("ok", {k: v for k, v in dict(box[-1]).items() if k not in ("self", "context", "_box", "r")}) if box else ("other:nocall", "")
        except TypeError as e:
            got = ("TypeError", str(e))
        except SyntaxError as e:
            got = ("SyntaxError", str(e))
        except Exception as e:  # noqa: BLE001
            got = ("other:" + type(e).__name__, str(e))
        prob = compare(exp, got, seq)
        if prob:
            return prob + f"  [source: {source}]", classify_known(sig, seq, exp, got)
        return None, None
    finally:
        library.tags.pop(tagname, None)


def run_witnesses(spec, rec):
    env = Env()
    for f in spec["findings"]:
        w = f["witness"]
        sig = tuple(tuple(p) for p in w["sig"])
        seq = tuple(tuple(s) for s in w["seq"])
        rec.case(("witness", f["id"]), nontrivial=False)
        check_case(env, rec, sig, seq)


def replay(case, rec):
    env = Env()
    rec.case(("replay", 1))
    rec.case(("replay", 2))
    sig = tuple(tuple(p) for p in case["sig"])
    seq = tuple(tuple(s) for s in case["seq"])
    if case.get("kind") == "tmpl":
        from django.template import Context, Template

        from django_components.templatetags.component_tags import register as library

        prob, known = run_tmpl_case(env, case, library, Template, Context)
        if prob:
            rec.report("binding-mismatch-template", case, {"what": prob}, known=known)
    else:
        check_case(env, rec, sig, seq)
