"""C18 - template caching is transparent and behaves as a bounded LRU.

(a) every get/set/has/clear sequence up to a length bound over a few keys, for sizes
    {None,0,1,2,3}: reference-model monitor (OrderedDict LRU) on return values + an invariant
    walker that fires after every public method (list forward == list backward == model's
    recency order, dict keys == list keys, len <= maxsize).
(b) cached_template() call histories and component renders over more distinct inline
    templates than the cache size: output equals compiling afresh, identity (``is``) holds
    exactly while the model says the key is cached.
"""
import itertools
import random
from collections import OrderedDict

PROP = "C18"
LEVEL = "exploration"
RULE = (
    "(a) all operation sequences of the stated length over get/has/set(k) for each key plus clear, "
    "per maxsize in {None,0,1,2,3}, each step checked against an OrderedDict LRU model and a "
    "linked-list invariant walk; a sequence is distinct by (maxsize, op tuple) and non-trivial "
    "when it contains a set followed later by a get/has; (b) seeded histories of cached_template "
    "calls / component renders / cache resets over 2-7 distinct inline templates for "
    "template_cache_size in {0,1,2,3,None}; distinct by (size, history)"
)
ASSUMPTIONS = [
    "has() is not a 'use' for recency (the implementation and the statement do not make it one)",
    "template_cache_size=None is resolved by app_settings to the default (128); histories stay below that many keys",
]

SIZES = [None, 0, 1, 2, 3]


def ops_for(nkeys):
    ops = []
    for k in range(nkeys):
        ops.append(("get", k))
        ops.append(("has", k))
        ops.append(("set", k))
    ops.append(("clear", None))
    return ops


def plan(tier, seed):
    shards = []
    if tier == "quick":
        configs = [(3, 6)]
        hist = 600
    else:
        configs = [(3, 7), (4, 6)]
        hist = 20000
    for nkeys, length in configs:
        ops = ops_for(nkeys)
        # shard on the first two operations
        prefixes = list(itertools.product(range(len(ops)), repeat=2))
        nshard = 14 if tier == "quick" else 28
        for i in range(nshard):
            shards.append({"name": f"lru_k{nkeys}_l{length}_{i:02d}", "kind": "lru", "nkeys": nkeys, "length": length, "prefixes": prefixes[i::nshard]})
    for i in range(2 if tier == "quick" else 8):
        shards.append({"name": f"random_{i}", "kind": "lru_random", "n": 3000 if tier == "quick" else 60000, "idx": i})
    for i in range(2 if tier == "quick" else 8):
        shards.append({"name": f"tmpl_{i}", "kind": "tmpl", "n": hist // (2 if tier == "quick" else 8), "idx": i})
    return shards


# ---------------------------------------------------------------------------------------
class Model:
    def __init__(self, maxsize):
        self.maxsize = maxsize
        self.d = OrderedDict()  # LRU first, MRU last

    def get(self, k):
        if k in self.d:
            self.d.move_to_end(k)
            return self.d[k]
        return None

    def has(self, k):
        return k in self.d

    def set(self, k, v):
        if self.maxsize is not None and self.maxsize <= 0:
            return
        if k in self.d:
            self.d[k] = v
            self.d.move_to_end(k)
            return
        if self.maxsize is not None and len(self.d) >= self.maxsize:
            self.d.popitem(last=False)
        self.d[k] = v

    def clear(self):
        self.d.clear()

    def mru_order(self):
        return list(reversed(self.d.keys()))


def walk(cache, limit=64):
    """Invariant walker. Returns (forward keys MRU..LRU, problem or None)."""
    fwd = []
    n = cache.head.next
    steps = 0
    while n is not None and n is not cache.tail:
        fwd.append(n.key)
        n = n.next
        steps += 1
        if steps > limit:
            return fwd, "forward walk does not reach tail (cycle)"
    if n is None:
        return fwd, "forward walk fell off the list"
    bwd = []
    n = cache.tail.prev
    steps = 0
    while n is not None and n is not cache.head:
        bwd.append(n.key)
        n = n.prev
        steps += 1
        if steps > limit:
            return fwd, "backward walk does not reach head (cycle)"
    if n is None:
        return fwd, "backward walk fell off the list"
    if bwd[::-1] != fwd:
        return fwd, f"forward {fwd} != reversed backward {bwd[::-1]}"
    if set(cache.cache.keys()) != set(fwd) or len(cache.cache) != len(fwd):
        return fwd, f"dict keys {sorted(cache.cache.keys(), key=repr)} != list keys {fwd}"
    for k, node in cache.cache.items():
        if node.key != k:
            return fwd, f"dict key {k!r} maps to node with key {node.key!r}"
    if cache.maxsize is not None and len(fwd) > max(cache.maxsize, 0):
        return fwd, f"holds {len(fwd)} entries > maxsize {cache.maxsize}"
    return fwd, None


def run_seq(LRUCache, maxsize, seq):
    """Run one op sequence on a fresh cache + model. Returns None or (step, what)."""
    c = LRUCache(maxsize=maxsize)
    m = Model(maxsize)
    for i, (op, k) in enumerate(seq):
        if op == "get":
            got, exp = c.get(k), m.get(k)
        elif op == "has":
            got, exp = c.has(k), m.has(k)
        elif op == "set":
            v = ("v", i)
            got, exp = c.set(k, v), m.set(k, v)
        else:
            got, exp = c.clear(), m.clear()
        if got != exp or type(got) is not type(exp):
            return i, f"{op}({k}) returned {got!r}, model {exp!r}"
        fwd, prob = walk(c)
        if prob:
            return i, "invariant: " + prob
        if fwd != m.mru_order():
            return i, f"recency order {fwd} != model {m.mru_order()}"
    return None


def nontrivial(seq):
    seen_set = False
    for op, _ in seq:
        if op == "set":
            seen_set = True
        elif seen_set and op in ("get", "has"):
            return True
    return False


def shard_lru(spec, rec):
    from django_components.util.cache import LRUCache

    ops = ops_for(spec["nkeys"])
    length = spec["length"]
    rec.require("lru-invariant-walk")
    nwalk = 0
    for pfx in spec["prefixes"]:
        head = [ops[i] for i in pfx]
        for tail in itertools.product(ops, repeat=length - len(head)):
            seq = head + list(tail)
            nt = nontrivial(seq)
            for size in SIZES:
                r = run_seq(LRUCache, size, seq)
                nwalk += length
                if r is not None:
                    rec.violation("lru-model", {"kind": "lru", "maxsize": size, "seq": seq}, {"step": r[0], "what": r[1]})
            rec.case(("lru", spec["nkeys"], tuple(seq)), nontrivial=nt, n=len(SIZES))
            if nt and rec.want_sample() and hash(tuple(seq)) % 9973 == 0:
                rec.sample({"kind": "lru", "sizes": SIZES, "seq": [f"{o}({k})" if k is not None else o for o, k in seq]})
    rec.observe("lru-invariant-walk", nwalk)
    rec.count("lru_steps_checked", nwalk)
    rec.exhaustive = True


def shard_lru_random(spec, rec):
    from django_components.util.cache import LRUCache

    rng = random.Random(f"{spec['seed']}-lrurand-{spec['idx']}")
    rec.require("lru-invariant-walk")
    for _ in range(spec["n"]):
        nkeys = rng.randint(2, 8)
        ops = ops_for(nkeys)
        weights = [1 if o[0] == "clear" else 6 for o in ops]
        seq = rng.choices(ops, weights=weights, k=rng.randint(8, 80))
        size = rng.choice([None, 0, 1, 2, 3, 4, 5, 7])
        r = run_seq(LRUCache, size, seq)
        rec.observe("lru-invariant-walk", len(seq))
        rec.case(("lrur", size, tuple(seq)), nontrivial=nontrivial(seq))
        rec.count("lru_random_steps", len(seq))
        if r is not None:
            rec.violation("lru-model", {"kind": "lru", "maxsize": size, "seq": seq}, {"step": r[0], "what": r[1]})
    rec.exhaustive = False


# ---------------------------------------------------------------------------------------
# (b) cached_template and component renders
def shard_tmpl(spec, rec):
    from vf import boot

    boot.boot()
    rng = random.Random(f"{spec['seed']}-tmpl-{spec['idx']}")
    rec.require("identity-checks", "fresh-compile-comparisons")
    for ci in range(spec["n"]):
        size = rng.choice([0, 1, 2, 3, None])
        ntem = rng.randint(2, 7)
        hist = []
        for _ in range(rng.randint(4, 24)):
            r = rng.random()
            if r < 0.12:
                # the same template STRING compiled for two different template names / origins (relative include)
                hist.append(["ctrel", rng.randrange(2)])
            elif r < 0.22:
                # the same template STRING compiled for two Engine INSTANCES of one class with different options
                hist.append(["cteng", rng.randrange(2)])
            elif r < 0.55:
                hist.append(["ct", rng.randrange(ntem)])
            elif r < 0.95:
                hist.append(["render", rng.randrange(ntem)])
            else:
                hist.append(["clear", 0])
        case = {"kind": "tmpl", "size": size, "ntem": ntem, "hist": hist, "tag": f"{spec['idx']}_{ci}"}
        out = run_tmpl_case(case, rec)
        nt = size not in (None,) and len({h[1] for h in hist if h[0] != "clear"}) > (size or 0)
        rec.case(("tmpl", size, ntem, tuple(map(tuple, hist))), nontrivial=nt)
        if out:
            rec.violation(out[0], case, {"what": out[1]})
        elif rec.want_sample() and ci % 97 == 0:
            rec.sample(case)
    rec.exhaustive = False


UNKNOWN = object()
REL_SRC = '{% include "./inc.html" %}:{{ v }}'


def run_tmpl_case(case, rec):
    from django.template import Context, Template
    from django.test import override_settings

    import django_components.cache as dcache
    from django_components import Component, cached_template, registry

    from django.template import Origin, engines

    from vf import boot

    boot.LOCMEM.update({"c18dir0/inc.html": "INC-ZERO", "c18dir1/inc.html": "INC-ONE"})
    engine = engines["django"].engine
    from django.template import Engine

    two_engines = [Engine(string_if_invalid="<e0>"), Engine(string_if_invalid="<e1>")]
    size, ntem, tag = case["size"], case["ntem"], case["tag"]
    srcs = [f"<b>T{i}-{tag} {{{{ v }}}} {{% if v %}}y{i}{{% endif %}}</b>" for i in range(ntem)]
    comps = {}
    with override_settings(COMPONENTS={"template_cache_size": size, "autodiscover": False}):
        dcache.template_cache = None
        try:
            for i in range(ntem):
                comps[i] = type(f"C18_{tag}_{i}", (Component,), {"template": srcs[i], "get_context_data": lambda self, v=None: {"v": v}})
            eff = 128 if size is None else size
            model = Model(eff)
            held = {}  # key -> Template object the model believes cached
            gone = {}  # key -> last Template object seen before the model evicted the key
            for step, (op, i) in enumerate(case["hist"]):
                if op == "clear":
                    dcache.get_template_cache().clear()
                    model.clear()
                    gone.update({k: v for k, v in held.items() if v is not UNKNOWN})
                    held.clear()
                    continue
                src = srcs[i] if op not in ("ctrel", "cteng") else (REL_SRC if op == "ctrel" else "ENG:{{ c18_missing_var }}") + f"<!--{tag}-->"
                # the cache key covers everything the compiled Template depends on: string, template name, origin, engine
                mkey = (src, op, i) if op in ("ctrel", "cteng") else (src, "component") if op == "render" else src
                was = model.get(mkey)
                if op == "ctrel":
                    # identical source, different template name: "./inc.html" resolves relative to the name
                    nm = f"c18dir{i}/main.html"
                    kw = {"name": nm, "engine": engine}
                    t = cached_template(src, origin=Origin(name=nm, template_name=nm), **kw)
                    got = t.render(Context({"v": step}))
                    exp = Template(src, origin=Origin(name=nm, template_name=nm), **kw).render(Context({"v": step}))
                    rec.observe("fresh-compile-comparisons")
                    rec.count("relative_include_compilations")
                    if got != exp:
                        return "cache-not-transparent", f"step {step}: cached_template({src[:30]!r}, name={nm!r}) output {got!r} != fresh {exp!r}"
                    t2 = t
                elif op == "cteng":
                    t = cached_template(src, engine=two_engines[i])
                    got = t.render(Context({"v": step}))
                    exp = Template(src, engine=two_engines[i]).render(Context({"v": step}))
                    rec.observe("fresh-compile-comparisons")
                    rec.count("two_engine_compilations")
                    if got != exp:
                        return "cache-not-transparent", f"step {step}: cached_template({src[:30]!r}, engine=#{i}) output {got!r} != fresh {exp!r}"
                    t2 = t
                elif op == "ct":
                    t = cached_template(src)
                    got = t.render(Context({"v": step}))
                    exp = Template(src).render(Context({"v": step}))
                    rec.observe("fresh-compile-comparisons")
                    if got != exp:
                        return "cache-not-transparent", f"step {step}: cached_template output {got!r} != fresh {exp!r}"
                    t2 = t
                else:
                    comp = comps[i]
                    got = comp.render(kwargs={"v": step}, render_dependencies=False)
                    exp = Template(src).render(Context({"v": step}))
                    rec.observe("fresh-compile-comparisons")
                    if _strip(got) != exp:
                        return "cache-not-transparent", f"step {step}: component output {_strip(got)!r} != fresh {exp!r}"
                    # which Template object did the component use?  public observation:
                    # ask cached_template *after* the render; it must be the one just used.
                    t2 = None
                if was is None:
                    model.set(mkey, True)
                # identity while cached (UNKNOWN = entry created by a component render)
                if op in ("ct", "ctrel", "cteng"):
                    rec.observe("identity-checks")
                    prev = held.get(mkey)
                    if was is not None and prev is not None and prev is not UNKNOWN and prev is not t2:
                        return "identity-lost-while-cached", f"step {step}: key cached per model but a different Template object was returned"
                    if was is None and mkey in gone and gone[mkey] is t2:
                        return "entry-survived-eviction", f"step {step}: model says evicted/absent, yet the identical Template object came back (cache holds more than {eff})"
                    held[mkey] = t2
                elif was is None:
                    held[mkey] = UNKNOWN
                for k in list(held):
                    if k not in model.d:
                        v = held.pop(k)
                        if v is not UNKNOWN:
                            gone[k] = v
                # bound check through the public API of the cache object
                c = dcache.get_template_cache()
                n_entries = len(c.cache)
                if n_entries > eff:
                    return "cache-over-capacity", f"step {step}: {n_entries} entries > {eff}"
                if n_entries != len(model.d):
                    return "cache-size-differs-from-model", f"step {step}: {n_entries} entries, model {len(model.d)}"
        finally:
            dcache.template_cache = None
    return None


import re as _re

_ID = _re.compile(r' data-djc-id-\w{6}(="")?')
_CM = _re.compile(r"<!-- _RENDERED [^>]*-->")


def _strip(html):
    return _CM.sub("", _ID.sub("", str(html)))


def run_shard(spec, rec):
    kind = spec["kind"]
    if kind == "lru":
        shard_lru(spec, rec)
    elif kind == "lru_random":
        shard_lru_random(spec, rec)
    else:
        shard_tmpl(spec, rec)


def replay(case, rec):
    if case["kind"] == "lru":
        from django_components.util.cache import LRUCache

        seq = [tuple(x) for x in case["seq"]]
        r = run_seq(LRUCache, case["maxsize"], seq)
        rec.case(("replay",), True)
        rec.case(("replay2",), True)
        if r is not None:
            rec.violation("lru-model", case, {"step": r[0], "what": r[1]})
    else:
        from vf import boot

        boot.boot()
        out = run_tmpl_case(case, rec)
        rec.case(("replay",), True)
        rec.case(("replay2",), True)
        if out:
            rec.violation(out[0], case, {"what": out[1]})
