"""C10 - stock templating is preserved: unchanged alone, composes with components.

(a) Differential monitor against unpatched Django: generated stock template families (extends
    chains, include, block + block.super, for/if/with/filter/autoescape/firstof/cycle, custom tags
    and filters of a plain Library, balanced quotes in tag arguments, deliberate errors) are
    compiled and rendered twice in one process - with the library's patched Template.compile_nodelist
    / Template.render and with the *saved original methods* (captured before django.setup()) - on
    uncached locmem engines, for both engine.debug values.  Output bytes (or exception type + message),
    the Context layers and the render-context depth afterwards must be equal.
(b) Metamorphic monitor "composition = inlining": E1 component programs in which the page and / or
    component templates are split by a family splitter into base + child (+ grandchild) with blocks,
    {{ block.super }} and {% include %}; the splitter emits the family AND the hand-flattened program
    from the same pieces, so both must render identically under both context behaviours.
"""
import random

from vf import boot, e1run
from vf.gen import program as pg
from vf.gen import skeletons

PROP = "C10"
LEVEL = "exploration"
RULE = (
    "(a) stock families of 1-4 templates: base/child/grandchild via extends, includes (with / only), blocks overridden with or "
    "without block.super, bodies of text, {{ var|filters }}, if/for/with/autoescape/firstof/cycle/comment, custom simple tags and "
    "filters with quoted arguments, ~8% with a runtime or syntax error; x 2 contexts x engine.debug on/off; (b) E1 programs ('slots' "
    "and 'provide' flavours) whose page and component templates are randomly split into extends/block/include families vs the "
    "flattened original, both modes; distinct by family / program; non-trivial = (a) family uses extends or include, (b) at least one "
    "component template is an extends-based family"
)
ASSUMPTIONS = [
    "block tags with unbalanced quotes (per the patched lexer) are outside the statement and not generated",
    "(b) equivalence is by construction under Django's documented extends/block/include semantics",
    "(b) families in which a {% block %} is rendered inside its own rendering (fill content that re-enters itself through {{ default }} "
    "or a same-named nested slot) are outside Django's block semantics (the block being rendered is popped from the block state); a "
    "monitor on BlockNode.render detects them at run time and they are counted, not compared",
]

KNOWN_BLOCK_CTX = "C10-block-context-shared-between-nested-extends-components"


# =======================================================================================
# (a) stock templates
class StockGen:
    def __init__(self, rng):
        self.rng = rng
        self.n = 0
        self.templates = {}

    def tok(self):
        self.n += 1
        return f"s{self.n}"

    def expr(self):
        rng = self.rng
        v = rng.choice(["a", "b", "lst", "html", "missing", "d.k", "lst.0", "n"])
        if rng.random() < 0.5:
            v += rng.choice(["|upper", "|lower", "|length", "|default:'x y'", '|default:"it\'s"', "|safe", "|join:', '", "|c10wrap", "|c10wrap:'#'", "|add:1", "|escape", "|first"])
        return v

    def body(self, depth=0, blocks=None):
        rng = self.rng
        out = []
        for _ in range(rng.randint(1, 4)):
            r = rng.random()
            if r < 0.25 or depth > 3:
                out.append(rng.choice(["[" + self.tok() + "]", " ", "\n", "<p>", "é", "{# c #}", "}", "% ", "'", '"', "it's", "100%"]))
            elif r < 0.45:
                out.append("{{ " + self.expr() + " }}")
            elif r < 0.55:
                out.append("{% if " + rng.choice(["a", "missing", "n > 1", 'a == "x\'y"', "lst and not b", "a in lst"]) + " %}" + self.body(depth + 1) + ("{% else %}" + self.body(depth + 1) if rng.random() < 0.4 else "") + "{% endif %}")
            elif r < 0.65:
                out.append("{% for i in " + rng.choice(["lst", "lst|slice:':2'", "missing", "'ab'"]) + " %}" + "{{ i }}{{ forloop.counter }}" + self.body(depth + 1) + ("{% empty %}E" if rng.random() < 0.3 else "") + "{% endfor %}")
            elif r < 0.72:
                out.append("{% with w=" + rng.choice(["a", "'lit x'", "n|add:2", '"q\'q"']) + " %}{{ w }}" + self.body(depth + 1) + "{% endwith %}")
            elif r < 0.77:
                out.append("{% autoescape " + rng.choice(["on", "off"]) + " %}{{ html }}" + self.body(depth + 1) + "{% endautoescape %}")
            elif r < 0.82:
                out.append(rng.choice(["{% firstof missing a 'z' %}", "{% firstof missing missing2 \"fall back\" %}", "{% cycle 'x' 'y' as cy %}{{ cy }}", "{% now 'Y' as yr %}", "{% templatetag openblock %}", "{% spaceless %}<a> </a>{% endspaceless %}"]))
            elif r < 0.92:
                out.append(rng.choice(['{% c10echo "a b" a %}', "{% c10echo 'single' n k=a %}", '{% c10echo "it\'s" %}', "{% c10ctx 'a' %}", '{% c10echo "x" "y z" 1 2.5 %}', "{% c10echo\n  a\n  'multi line'\n%}", '{% c10echo "{{ not a var }}" %}']))
            elif blocks is not None and depth == 0:
                name = f"blk{len(blocks)}"
                default = self.body(depth + 1)
                blocks.append(name)
                out.append("{% block " + name + " %}" + default + "{% endblock %}")
            else:
                out.append("[" + self.tok() + "]")
        return "".join(out)

    def family(self, prefix):
        rng = self.rng
        t = {}
        blocks = []
        base = "{% load c10lib %}" + self.body(0, blocks)
        for _ in range(rng.randint(0, 2)):
            name = f"blk{len(blocks)}"
            blocks.append(name)
            base += "{% block " + name + " %}" + self.body(1) + "{% endblock %}" + self.body(1)
        t[f"{prefix}_base"] = base
        entry = f"{prefix}_base"
        shape = rng.random()
        feats = set()
        if shape < 0.65 and blocks:
            feats.add("extends")
            child = '{% extends "' + prefix + '_base" %}{% load c10lib %}' + rng.choice(["", "ignored text", "\n"])
            for b in blocks:
                if rng.random() < 0.6:
                    sup = "{{ block.super }}" if rng.random() < 0.4 else ""
                    if sup:
                        feats.add("block.super")
                    child += "{% block " + b + " %}" + self.body(1) + sup + self.body(2) + "{% endblock %}"
            t[f"{prefix}_child"] = child
            entry = f"{prefix}_child"
            if rng.random() < 0.35:
                feats.add("grandchild")
                g = '{% extends "' + prefix + '_child" %}{% load c10lib %}'
                for b in blocks:
                    if rng.random() < 0.4:
                        g += "{% block " + b + " %}" + ("{{ block.super }}" if rng.random() < 0.5 else "") + self.body(2) + "{% endblock %}"
                t[f"{prefix}_grand"] = g
                entry = f"{prefix}_grand"
        if rng.random() < 0.45:
            feats.add("include")
            t[f"{prefix}_inc"] = "{% load c10lib %}" + self.body(1) + "{{ a }}{{ w }}"
            if rng.random() < 0.4 and blocks:
                # the included template is itself an extends-based family that re-uses the includer's block names
                # (an included template renders with its own, isolated block state in stock Django)
                feats.add("include-of-extends-family")
                t[f"{prefix}_incbase"] = "{% load c10lib %}" + "".join("{% block " + b + " %}[ib-" + b + "]" + self.body(2) + "{% endblock %}" for b in blocks[:2]) + "{{ w }}"
                t[f"{prefix}_inc"] = '{% extends "' + prefix + '_incbase" %}{% load c10lib %}' + "".join("{% block " + b + " %}" + ("{{ block.super }}" if rng.random() < 0.5 else "") + "[io-" + b + "]{% endblock %}" for b in blocks[:1])
            inc = rng.choice(['{% include "' + prefix + '_inc" %}', '{% include "' + prefix + '_inc" with w=n %}', '{% include "' + prefix + '_inc" with w="lit" only %}'])
            # put the include into the base template
            t[f"{prefix}_base"] += inc
        err = None
        if rng.random() < 0.08:
            feats.add("error")
            err = rng.choice(["{% c10boom 'value' %}", "{% c10boom 'key' %}", "{% endif %}", "{% nosuchtag %}", "{{ a|nosuchfilter }}", "{% if %}", '{% include "nosuch_template" %}', "{% for x in %}{% endfor %}", "{{ a|add }}"])
            t[f"{prefix}_base"] += err
        return t, entry, feats


CTXS = [
    {"a": "x'y", "b": "", "lst": ["p", "<q>", 3], "html": "<b>&amp;'\"</b>", "d": {"k": "dv"}, "n": 2},
    {"a": "", "b": "bee", "lst": [], "html": "plain", "d": {}, "n": 0},
]


class StockEnv:
    def __init__(self):
        boot.boot()
        from django.template import Context, Engine, Template

        self.Template, self.Context, self.Engine = Template, Context, Engine
        self.patched = {"compile_nodelist": Template.compile_nodelist, "render": Template.render}
        assert self.patched["compile_nodelist"] is not boot.ORIG["compile_nodelist"]

    def use(self, which):
        m = boot.ORIG if which == "orig" else self.patched
        self.Template.compile_nodelist = m["compile_nodelist"]
        self.Template.render = m["render"]

    def run(self, templates, entry, ctxd, debug, which):
        """-> (kind, value, ctx layers, render ctx depth)"""
        self.use(which)
        try:
            eng = self.Engine(loaders=[("django.template.loaders.locmem.Loader", dict(templates))], debug=debug, libraries={"c10lib": "vf.c10lib"})
            ctx = self.Context({k: (list(v) if isinstance(v, list) else dict(v) if isinstance(v, dict) else v) for k, v in ctxd.items()})
            try:
                t = eng.get_template(entry)
                out = t.render(ctx)
                res = ("ok", out)
            except Exception as e:  # noqa: BLE001
                res = ("exc", type(e).__name__ + ": " + str(e)[:300])
            # state the caller can see on the Context afterwards: layers (keys AND values), render-context depth, the
            # template binding and the template name Django records on the Context
            layers = [sorted((k, repr(v)[:60]) for k, v in d.items()) for d in ctx.dicts]
            return res + (layers, len(ctx.render_context.dicts), getattr(ctx, "template", None) is None, getattr(ctx, "template_name", "<unset>"))
        finally:
            self.use("patched")


def shard_stock(spec, rec):
    env = StockEnv()
    rec.require("patched-vs-original-comparisons")
    rng = random.Random(f"{spec['seed']}-c10a-{spec['idx']}")
    for i in range(spec["n"]):
        g = StockGen(random.Random(rng.random()))
        templates, entry, feats = g.family(f"f{i}")
        nt = bool(feats & {"extends", "include"})
        rec.case(templates, nontrivial=nt)
        for f in feats:
            rec.count("stock_feature:" + f)
        for ci, ctxd in enumerate(CTXS):
            for debug in (False, True):
                a = env.run(templates, entry, ctxd, debug, "patched")
                b = env.run(templates, entry, ctxd, debug, "orig")
                rec.observe("patched-vs-original-comparisons")
                rec.count("stock_outcome:" + a[0])
                if a != b:
                    what = "output" if a[:2] != b[:2] else "context-state"
                    rec.violation("patched-differs-from-stock-" + what, {"kind": "stock", "templates": templates, "entry": entry, "ctx": ci, "debug": debug}, {"patched": repr(a)[:500], "stock": repr(b)[:500]})
                    break
        if nt and rec.want_sample() and i % 97 == 0:
            rec.sample({"entry": entry, "templates": {k: v[:200] for k, v in templates.items()}})


# =======================================================================================
# (b) composition by inlining
class Splitter:
    """Turns a node list into an extends/block/include family over the locmem loader; the flattened
    equivalent is the node list itself."""

    def __init__(self, rng, reg, prefix, unique_blocks=False):
        self.rng, self.reg, self.prefix = rng, reg, prefix
        self.templates = {}
        self.k = 0
        self.feats = set()
        self.unique_blocks = unique_blocks
        self.fam = 0
        self.dynamic = False  # serialise component tags through {% component "dynamic" is=... %}

    def name(self, what):
        self.k += 1
        return f"{self.prefix}_{what}{self.k}"

    def ser(self, nodes):
        return pg.ser_nodes(nodes, self.reg, self.dynamic)

    def split(self, nodes, levels=None):
        """-> template source (string) equivalent to ser(nodes)"""
        rng = self.rng
        if not nodes:
            return self.ser(nodes)
        levels = levels if levels is not None else rng.choice([1, 1, 2])
        base_name = self.name("base")
        child = []
        self.fam += 1
        self.bi = 0
        self.deep_p = rng.choice([0.0, 0.2, 0.4])
        base = self.pieces(nodes, child, top=True)
        self.templates[base_name] = "".join(base)
        self.feats.add("extends")
        src = '{% extends "' + base_name + '" %}' + "".join(child)
        if levels > 1:
            mid = self.name("mid")
            self.templates[mid] = src
            self.feats.add("grandchild")
            src = '{% extends "' + mid + '" %}'
        return src

    def bname(self):
        # block names: a small shared pool (as in real projects: "content", "title") or unique per family
        self.bi += 1
        return f"u{self.fam}_{self.bi}" if self.unique_blocks else f"b{self.bi}"

    def pieces(self, nodes, child, top, in_fill=False):
        """Source pieces for the BASE template equivalent to ``nodes`` once ``child`` (list of block overrides
        for the extending template) is applied.  At the top level every node is placed; inside nested bodies
        (fill bodies, slot defaults, loop / if / with / provide / element bodies) a node is rewritten with
        probability deep_p and otherwise recursed into."""
        rng = self.rng
        junk = lambda: "[junk" + str(rng.randrange(1000)) + "]"  # noqa: E731
        out = []
        i = 0
        while i < len(nodes):
            n = nodes[i]
            if not top and rng.random() >= (max(self.deep_p, 0.5) if in_fill else self.deep_p):
                out.append(self.ser([self.deep(n, child)]))
                i += 1
                continue
            if not top:
                self.feats.add("nested-rewrite")
            r = rng.random()
            if top and n[0] == "slot" and rng.random() < 0.3:
                r = 0.99  # slots moved into an {% include %}
            if r < 0.3:
                out.append(self.ser([self.deep(n, child)]))
            elif r < 0.45:
                out.append("{% block " + self.bname() + " %}" + self.ser([self.deep(n, child)]) + "{% endblock %}")
            elif r < 0.7:
                self.feats.add("block-override" if top else "nested-block-override")
                b = self.bname()
                out.append("{% block " + b + " %}" + junk() + "{% endblock %}")
                child.append("{% block " + b + " %}" + self.ser([n]) + "{% endblock %}")
            elif r < 0.85 and i + 1 < len(nodes):
                self.feats.add("block.super" if top else "nested-block.super")
                b = self.bname()
                out.append("{% block " + b + " %}" + self.ser([n]) + "{% endblock %}")
                child.append("{% block " + b + " %}{{ block.super }}" + self.ser([nodes[i + 1]]) + "{% endblock %}")
                i += 1
            else:
                self.feats.add("include" if top else "nested-include")
                inc = self.name("inc")
                self.templates[inc] = self.ser([n])
                out.append('{% include "' + inc + '" %}')
            i += 1
        return out

    def deep(self, n, child):
        """Copy of node ``n`` whose nested bodies are replaced by pre-serialised source with blocks / includes."""
        if not self.deep_p:
            return n
        k = n[0]
        n = list(n)

        def B(body, in_fill=False):
            return [("raw", "".join(self.pieces(body, child, top=False, in_fill=in_fill)))] if body else body

        def S(sites):
            out = []
            for s in sites:
                s = list(s)
                if s[0] == "fill":
                    s[2] = B(s[2], in_fill=True)
                elif s[0] == "if":
                    s[2] = S(s[2])
                    s[3] = S(s[3]) if s[3] else s[3]
                elif s[0] == "for":
                    s[-1] = S(s[-1])
                elif s[0] == "with":
                    s[3] = S(s[3])
                out.append(s)
            return out

        if k == "elem":
            n[2] = B(n[2])
        elif k == "if":
            n[2] = B(n[2])
            n[3] = B(n[3]) if n[3] else n[3]
        elif k == "for":
            n[-1] = B(n[-1])
        elif k in ("with", "provide"):
            n[3] = B(n[3])
        elif k == "slot":
            n[3] = B(n[3], in_fill=True) if n[3] else n[3]
        elif k == "comp" and n[3] is not None:
            body = n[3]
            n[3] = ["implicit", B(body[1], in_fill=True)] if body[0] == "implicit" else [body[0], S(body[1])]
        return n


def shard_compose(spec, rec):
    env = e1run.E1Env()
    rec.require("family-vs-flattened-comparisons")
    rng = random.Random(f"{spec['seed']}-c10b-{spec['idx']}")
    for i in range(spec["n"]):
        for attempt in range(10):
            prng = random.Random(rng.random())
            if prng.random() < 0.3:
                # the catalogue of hard compositions (slots nested in default content, forwarding, default passed on ...)
                prog = skeletons.skeleton_program(prng)[0]
            else:
                flavour = prng.choice(["slots", "slots", "provide"])
                prog = pg.ProgGen(prng, flavour).program()
            if all(e1run.reference(prog, m)[0] == "ok" for m in ("django", "isolated")):
                break
        else:
            continue
        case = {"kind": "compose", "program": prog, "split_seed": prng.random(), "unique_blocks": prng.random() < 0.65, "dynamic": prng.random() < 0.3, "seed": [spec["seed"], spec["idx"], i]}
        nt = run_compose_case(env, rec, case)
        rec.case(prog, nontrivial=bool(nt))


def build_family(env, prog, split_seed, unique_blocks=False, dynamic=False):
    """-> (Built flattened, Built family, locmem names, features, classes split).  With ``dynamic`` every component
    tag of the PAGE (flattened and family alike) is written through the dynamic component."""
    flat = env.build(prog)
    fam = env.build(prog)
    if dynamic:
        flat.page_src = flat.dynamic_source()
        fam.page_src = fam.dynamic_source()
    srng = random.Random(split_seed)
    sp = Splitter(srng, fam.reg, fam.prefix, unique_blocks=unique_blocks)
    split_classes = []
    for cname, cls in fam.classes.items():
        if srng.random() < 0.6:
            cls.template = sp.split(prog["classes"][cname]["template"])
            split_classes.append(cname)
    if srng.random() < (0.8 if dynamic else 0.5):
        sp.dynamic = dynamic
        fam.page_src = sp.split(prog["page"])
        split_classes.append("<page>")
    boot.LOCMEM.update(sp.templates)
    return flat, fam, list(sp.templates), sp.feats, split_classes


def nested_extends(prog, mode, split_classes, unique):
    """Is some extends-based template rendered inside the render of another extends-based template that
    shares a block name with it (any two families when block names come from the shared pool; only the
    same class when names are unique per family)?"""
    ref = e1run.reference(prog, mode)
    if ref[0] != "ok":
        return False
    split = set(split_classes)
    for inst in ref[2].instances:
        if inst.cname not in split:
            continue
        anc = list(inst.dyn_ancestors) + (["<page>"] if "<page>" in split else [])
        for a in anc:
            if a in split and (not unique or a == inst.cname):
                return True
    return False


def renamed_agrees(env, prog, mode, case):
    flat, fam, names, feats, split_classes = build_family(env, prog, case["split_seed"], unique_blocks=True, dynamic=bool(case.get("dynamic")))
    try:
        ref = e1run.reference(prog, mode)
        limit = 20 * len(ref[2].instances) + 50
        a = env.render(flat, mode, limit=limit)[:2]
        with BlockReentry() as mon:
            b = env.render(fam, mode, limit=limit)[:2]
        if mon.reentered:
            return "reentered"
        return a == b
    finally:
        flat.dispose()
        fam.dispose()
        for n in names:
            boot.LOCMEM.pop(n, None)


class BlockReentry:
    """Monitor on django.template.loader_tags.BlockNode.render: was a block node rendered while a render of the same
    node in the same template instance (same component instance / the page) was still in progress?  Django pops the block being rendered from the block
    state for the duration of its render ({{ block.super }} relies on it), so a re-entered block necessarily resolves
    to its parent version: stock templates cannot re-enter a block, and "composition = inlining" is not defined for a
    family whose fill content (holding the block) is rendered inside its own rendering."""

    def __init__(self):
        from django.template.loader_tags import BLOCK_CONTEXT_KEY, BlockNode

        self.BlockNode, self.key = BlockNode, BLOCK_CONTEXT_KEY
        self.active = {}
        self.reentered = 0
        self.renders = 0

    def __enter__(self):
        mon = self
        orig = self.orig = self.BlockNode.render

        def render(node, context):
            bc = context.render_context.get(mon.key)
            # the same block node, on behalf of the same component instance (or the page): a nested *instance* of an
            # extends-based component re-using its cached template is a separate template render and is NOT excluded
            k = (id(node), context.get("_DJC_COMPONENT_CTX"))
            mon.renders += 1
            if bc is not None and mon.active.get(k):
                mon.reentered += 1
            mon.active[k] = mon.active.get(k, 0) + 1
            try:
                return orig(node, context)
            finally:
                mon.active[k] -= 1

        self.BlockNode.render = render
        return self

    def __exit__(self, *a):
        self.BlockNode.render = self.orig


def run_compose_case(env, rec, case):
    prog = case["program"]
    unique = bool(case.get("unique_blocks"))
    flat, fam, names, feats, split_classes = build_family(env, prog, case["split_seed"], unique_blocks=unique, dynamic=bool(case.get("dynamic")))
    try:
        if case.get("dynamic"):
            rec.count("compose_feature:page-tags-through-dynamic-component")
        for f in feats:
            rec.count("compose_feature:" + f)
        nsplit = len([c for c in split_classes if c != "<page>"])
        results = {}
        for mode in ("django", "isolated"):
            ref = e1run.reference(prog, mode)
            limit = 20 * len(ref[2].instances) + 50
            a = env.render(flat, mode, limit=limit)
            with BlockReentry() as mon:
                b = env.render(fam, mode, limit=limit)
            rec.observe("family-vs-flattened-comparisons")
            rec.count("block_renders_observed", mon.renders)
            results[mode] = (a, b)
            if mon.reentered:
                # outside the statement (see BlockReentry); counted, not compared
                rec.count("excluded:block-rendered-inside-its-own-render")
                results[mode] = (a, a)
            if a[0] == "ok" and ref[0] == "ok" and a[1] != ref[1]:
                rec.violation("flattened-differs-from-reference", dict(case, mode=mode), {"what": f"{a[1]!r} vs {ref[1]!r}"})
                return nsplit
        for mode in ("isolated", "django"):
            a, b = results[mode]
            if a[:2] == b[:2]:
                continue
            detail = {"flattened": repr(a[:2])[:400], "family": repr(b[:2])[:400], "split": split_classes, "page": fam.page_src[:400], "templates": {c: cls.template[:300] for c, cls in fam.classes.items()}, "locmem": {n: boot.LOCMEM[n][:200] for n in names}}
            # Defect model of the listed finding (mechanism-keyed): block-resolution state is shared through the
            # render context, so an extends-based template rendered inside the render of another extends-based
            # template that uses the same block name resolves the wrong block body.  Attributed iff
            #  (i) the identical split with collision-free block names agrees with the flattened program, or
            #  (ii) it still disagrees and an extends-based component is rendered inside the render of the SAME
            #       component (where unique names cannot help).
            known = None
            self_nested = nested_extends(prog, mode, split_classes, True)
            if unique:
                if self_nested:
                    known = KNOWN_BLOCK_CTX
            elif nested_extends(prog, mode, split_classes, False):
                ra = renamed_agrees(env, prog, mode, case)
                if ra == "reentered":
                    # the family re-enters a block once the name collision is out of the way: outside the statement
                    rec.count("excluded:block-rendered-inside-its-own-render")
                    return nsplit
                if ra or self_nested:
                    known = KNOWN_BLOCK_CTX
            rec.report("family-differs-from-flattened", dict(case, mode=mode), detail, known=known)
            return nsplit
        return nsplit
    finally:
        flat.dispose()
        fam.dispose()
        for n in names:
            boot.LOCMEM.pop(n, None)


# =======================================================================================
def plan(tier, seed):
    na = 2000 if tier == "quick" else 100000
    nb = 6000 if tier == "quick" else 60000
    ns = 8 if tier == "quick" else 16
    shards = [{"name": f"stock_{i:02d}", "kind": "stock", "n": na // ns, "idx": i} for i in range(ns)]
    shards += [{"name": f"compose_{i:02d}", "kind": "compose", "n": nb // ns, "idx": i} for i in range(ns)]
    return shards


def run_shard(spec, rec):
    if spec["kind"] == "stock":
        shard_stock(spec, rec)
    else:
        shard_compose(spec, rec)


def run_witnesses(spec, rec):
    """Stored witness of the listed finding: hand-written family + flattened program."""
    env = e1run.E1Env()
    from django_components import Component, registry

    for f in spec["findings"]:
        w = f["witness"]
        rec.case(("witness", f["id"]), nontrivial=False)
        boot.LOCMEM.update(w["locmem"])
        names = []
        try:
            for name, tmpl in w["family_components"].items():
                registry.register(name, type("W" + name, (Component,), {"template": tmpl}))
                names.append(name)
            for name, tmpl in w["flat_components"].items():
                registry.register(name, type("W" + name, (Component,), {"template": tmpl}))
                names.append(name)
            diverged = False
            with env.override_settings(COMPONENTS={"context_behavior": w["mode"], "autodiscover": False}):
                env.inst_count = 0
                env.inst_limit = 300 if w.get("nonterminating") else None
                try:
                    fam = e1run.normalise(env.Template(w["family_page"]).render(env.Context({})))
                except e1run.Divergence:
                    # (logical guard: the page has two component tags and has instantiated 300 components)
                    diverged, fam = True, "<does not terminate>"
                finally:
                    env.inst_limit = None
                flat = e1run.normalise(env.Template(w["flat_page"]).render(env.Context({})))
            rec.observe("family-vs-flattened-comparisons")
            case = {"kind": "witness", "witness_of": f["id"]}
            if w.get("nonterminating"):
                if not diverged and fam == flat:
                    continue  # repaired
                detail = {"what": f"family {fam!r} flattened {flat!r}"}
                if not (diverged and flat == w["expected"] and rec.known_finding(f["id"], case, detail)):
                    rec.violation("family-differs-from-flattened", case, detail)
                continue
            if fam == flat:
                continue  # repaired
            if fam == w["observed"] and flat == w["expected"]:
                if not rec.known_finding(f["id"], case, {"what": f"family {fam!r} flattened {flat!r}"}):
                    rec.violation("family-differs-from-flattened", case, {"what": f"family {fam!r} flattened {flat!r}"})
            else:
                rec.violation("family-differs-from-flattened", case, {"what": f"witness: family {fam!r} flattened {flat!r}; documented {w['observed']!r} / {w['expected']!r}"})
        finally:
            for n in names:
                registry.unregister(n)
            for n in w["locmem"]:
                boot.LOCMEM.pop(n, None)


def replay(case, rec):
    rec.case(("replay", 1))
    rec.case(("replay", 2))
    if case["kind"] == "stock":
        env = StockEnv()
        a = env.run(case["templates"], case["entry"], CTXS[case["ctx"]], case["debug"], "patched")
        b = env.run(case["templates"], case["entry"], CTXS[case["ctx"]], case["debug"], "orig")
        if a != b:
            rec.violation("patched-differs-from-stock", case, {"patched": repr(a)[:500], "stock": repr(b)[:500]})
    else:
        env = e1run.E1Env()
        run_compose_case(env, rec, case)
