"""C07 - concurrent renders in different threads do not interfere  (schedule exploration).

Two or three render / compile / first-access tasks run in real threads under the controlled
scheduler (vf/mon/sched.py): sys.monitoring LINE events inside the library's shared-state modules
are yield points, exactly one task runs at a time, so a schedule is a list of (yield point -> next
task) and replays exactly.  Strategies: every schedule with <= 1 pre-emption (quick) / <= 2
(thorough, sampled second point) for 2-task workloads, PCT-style random priorities for 3-task
workloads, and a free-running stress pass with a 1 us switch interval as a cross-check.
Oracle: each task's result (normalised output or exception class) must equal its solo result;
no residue in the reflection-found registries after all tasks joined (compared with running the
same tasks serially); the template LRU must satisfy its structural invariant; ids are owner-tagged
so residue and foreign deletions are attributed to a task.
"""
import gc
import os
import random
import tempfile
import sys
import threading

from vf import e1run
from vf.checks.c18 import walk as lru_walk
from vf.gen import program as pg
from vf.mon import census, sched

PROP = "C07"
LEVEL = "exploration"
RULE = (
    "workloads of 2-3 tasks drawn from: provider+consumer render (generated 'provide' programs), failing render inside a provider, "
    "renders compiling fresh inline templates through a template cache of size 1-2, first access of a fresh class's media/js/css/"
    "template, first compilation of a component tag; schedules: all single pre-emptions at every yield point (quick) plus sampled "
    "double pre-emptions (thorough), PCT random priorities with 3-6 change points, free-running stress; distinct by (workload, "
    "schedule); non-trivial = the schedule contains at least one pre-emption inside a shared-state module"
)
ASSUMPTIONS = [
    "yield points are statement starts inside django_components shared-state modules; interleavings inside a single bytecode-level statement and inside Django itself are not explored",
    "held on the schedules executed - never 'race-free'",
]

WATCHED = [
    "django_components.perfutil.provide", "django_components.perfutil.component", "django_components.util.cache", "django_components.cache",
    "django_components.template", "django_components.component_media", "django_components.provide", "django_components.component",
    "django_components.slots", "django_components.dependencies", "django_components.context", "django_components.util.context",
]


class Env(e1run.E1Env):
    def __init__(self):
        super().__init__()
        import importlib

        import django_components.util.misc as misc

        self.misc = misc
        self.counter = 0
        self.files_dir = os.path.join(tempfile.gettempdir(), f"vf-c07-files-{os.getpid()}")
        os.makedirs(self.files_dir, exist_ok=True)
        self.tags = {}
        orig_generate = misc.generate

        def generate(alphabet, size=6):
            # owner-tagged ids: 1 char task tag + 5 char counter; unique by construction
            self.counter += 1
            tag = self.tags.get(threading.get_ident(), "m")
            return f"{tag}{self.counter % 100000:05d}"

        misc.generate = generate
        # the library's own locks (if this tree has any) are replaced by tracked ones, see sched.TrackedRLock
        import django_components.perfutil.provide as pp
        import django_components.util.cache as uc

        self.tracked_locks = 0
        if hasattr(pp, "_provide_lock"):
            pp._provide_lock = sched.TrackedRLock()
            self.tracked_locks += 1
        if hasattr(uc, "RLock"):
            uc.RLock = sched.TrackedRLock
            self.tracked_locks += 1
        self.watch = sched.Watch([importlib.import_module(m) for m in WATCHED])
        self.k = 0

    def set_tags(self, run):
        self.tags = {}
        self._run = run

    # ---- tasks ---------------------------------------------------------------------------
    def task_program(self, prog, tag):
        built = self.build(prog)
        src = built.page_src
        tmpl = self.Template(src)  # compiled before threads start: no import/compile lock at a yield point
        page_ctx = dict(prog.get("page_ctx", {}))

        def run():
            self.tags[threading.get_ident()] = tag
            return e1run.normalise(tmpl.render(self.Context(dict(page_ctx))))

        return run, built

    def task_failing(self, tag):
        self.k += 1
        n = self.k
        names = (f"c07out{n}", f"c07fail{n}", f"c07ok{n}")

        class Out(self.Component):
            template = "<o>{% component '" + names[2] + "' / %}{% slot 'a' default / %}</o>"

        class Fail(self.Component):
            template = "f"

            def get_context_data(self):
                raise ValueError("task failure")

        class Ok(self.Component):
            template = "[{{ v }}]"

            def get_context_data(self):
                return {"v": self.inject("k", "D")}

        for nm, c in zip(names, (Out, Fail, Ok)):
            self.registry.register(nm, c)
        tmpl = self.Template('{% provide "k" v="PF" %}{% component "' + names[0] + '" %}{% component "' + names[1] + '" / %}{% endcomponent %}{% endprovide %}')

        def run():
            self.tags[threading.get_ident()] = tag
            return e1run.normalise(tmpl.render(self.Context({})))

        return run, names

    def task_cache_churn(self, tag, ntemplates=3):
        self.k += 1
        n = self.k
        classes = [type(f"C07Churn{n}_{i}", (self.Component,), {"template": f"<c>{n}-{i} {{{{ 1|add:{i} }}}}</c>"}) for i in range(ntemplates)]

        def run():
            self.tags[threading.get_ident()] = tag
            # hits and misses through a small cache: a hit on the entry that is currently least recently used
            # (c0 after c0,c1) is the window in which another task's miss evicts it
            order = [0, 1, 0, 2, 0, 1]
            return "".join(e1run.normalise(classes[i % len(classes)].render(render_dependencies=False)) for i in order)

        return run, classes

    def task_shared_churn(self, tag, classes, order):
        """Renders through a small template cache of classes that OTHER tasks render too (same cache keys)."""

        def run():
            self.tags[threading.get_ident()] = tag
            return "".join(e1run.normalise(classes[i % len(classes)].render(render_dependencies=False)) for i in order)

        return run, classes

    def task_shared_first_media(self, tag, box):
        """Renders a class that the OTHER task renders too and whose media (template file, inline js / css, Media) nobody
        has resolved yet: the class is made afresh before every schedule (see reset_state)."""

        def run():
            self.tags[threading.get_ident()] = tag
            cls = box["cls"]
            out = e1run.normalise(cls.render(render_dependencies=False))
            return (out, cls.js, cls.css, list(cls.media._js))

        return run, box

    def task_first_media(self, tag):
        self.k += 1
        n = self.k
        base = type(f"C07MB{n}", (self.Component,), {"template": "b", "Media": type("Media", (), {"js": [f"b{n}.js"]})})
        sub = type(f"C07MS{n}", (base,), {"template": "s", "js": f"/*js{n}*/", "Media": type("Media", (), {"js": [f"s{n}.js"], "css": [f"s{n}.css"]})})

        def run():
            self.tags[threading.get_ident()] = tag
            m = sub.media
            return (list(m._js), sorted((k, tuple(v)) for k, v in m._css.items()), sub.js, sub.template, list(base.media._js))

        return run, (base, sub)

    def task_first_parse(self, tag):
        self.k += 1
        n = self.k
        name = f"c07parse{n}"
        cls = type(f"C07P{n}", (self.Component,), {"template": "p"})
        self.registry.register(name, cls)
        src = '{% component "' + name + '" / %}[x]{% component "' + name + '" %}{% endcomponent %}'

        def run():
            self.tags[threading.get_ident()] = tag
            return e1run.normalise(self.Template(src).render(self.Context({})))

        return run, (name,)


def gen_prog(rng):
    for _ in range(20):
        prng = random.Random(rng.random())
        prog = pg.ProgGen(prng, "provide", nclasses=prng.randint(2, 3), size=6).program()
        if e1run.reference(prog, "django")[0] == "ok":
            return prog
    return None


KINDS = ["program", "failing", "churn", "media", "parse"]


def make_workload(env, rng, ntasks, kinds=None):
    """-> (list of (kind, task fn), cleanup handles).  Fresh classes/templates per workload instance."""
    tasks = []
    keep = []
    given = bool(kinds)
    kinds = kinds or [rng.choice(KINDS) for _ in range(ntasks)]
    if not given and "failing" not in kinds and "program" not in kinds and rng.random() < 0.7:
        kinds[0] = "program"
    shared = None
    for i, kind in enumerate(kinds):
        tag = "abc"[i]
        if kind == "shared_media":
            if not getattr(env, "_sm_box", None) or env._sm_box.get("workload") is not keep:
                from vf import boot

                env.k += 1
                n = env.k
                box = {"workload": keep}
                # template, js and css come from FILES in a directory listed in COMPONENTS.dirs (see explore_workload)
                os.makedirs(env.files_dir, exist_ok=True)
                with open(os.path.join(env.files_dir, f"c07sm{n}.html"), "w") as f:
                    f.write(f"<m>{n} {{{{ 1|add:1 }}}}</m>")
                with open(os.path.join(env.files_dir, f"c07sm{n}.js"), "w") as f:
                    f.write(f"/*jsfile{n}*/")
                with open(os.path.join(env.files_dir, f"c07sm{n}.css"), "w") as f:
                    f.write(f".cfile{n}{{}}")

                def prep(box=box, n=n):
                    box["i"] = box.get("i", 0) + 1
                    box["cls"] = type(f"C07SM{n}_{box['i']}", (env.Component,), {"template_file": f"c07sm{n}.html", "js_file": f"c07sm{n}.js", "css_file": f"c07sm{n}.css", "Media": type("Media", (), {"js": [f"sm{n}.js"]})})

                env.preparers = getattr(env, "preparers", []) + [prep]
                env._sm_box = box
            fn, h = env.task_shared_first_media(tag, env._sm_box)
            keep.append(("classes", h))
        elif kind == "shared_churn":
            if shared is None:
                env.k += 1
                shared = [type(f"C07Shared{env.k}_{j}", (env.Component,), {"template": f"<s>{env.k}-{j} {{{{ 1|add:{j} }}}}</s>"}) for j in range(3)]
            order = [[0], [0, 1], [1, 0, 2], [0, 1, 0], [2, 0]][rng.randrange(5)] if i else rng.choice([[0], [0, 1], [1, 0]])
            fn, h = env.task_shared_churn(tag, shared, order)
            keep.append(("classes", h))
        elif kind == "program":
            prog = gen_prog(rng)
            fn, h = env.task_program(prog, tag)
            keep.append(("built", h))
        elif kind == "failing":
            fn, h = env.task_failing(tag)
            keep.append(("names", h))
        elif kind == "churn":
            fn, h = env.task_cache_churn(tag)
            keep.append(("classes", h))
        elif kind == "media":
            fn, h = env.task_first_media(tag)
            keep.append(("classes", h))
        else:
            fn, h = env.task_first_parse(tag)
            keep.append(("names", h))
        tasks.append((kind, fn))
    return tasks, keep


def cleanup(env, keep):
    env.preparers = []
    for what, h in keep:
        if what == "built":
            h.dispose()
        elif what == "names":
            for n in h:
                try:
                    env.registry.unregister(n)
                except Exception:  # noqa: BLE001
                    pass


def reset_state(env, cache_size):
    import django_components.cache as dcache
    import django_components.component as comp

    dcache.template_cache = None
    comp.component_node_subclasses_by_name.clear() if hasattr(comp, "component_node_subclasses_by_name") else None
    # per-schedule preparation (e.g. a FRESH class whose media both tasks resolve for the first time)
    for prep in getattr(env, "preparers", []):
        prep()


def classify_result(r):
    if r is None:
        return ("none",)
    if r[0] == "ok":
        return ("ok", r[1])
    if r[0] == "exc":
        return ("exc", r[1])
    return (r[0],)


def lru_ok(env):
    import django_components.cache as dcache

    c = dcache.template_cache
    if c is None:
        return None
    fwd, prob = lru_walk(c, limit=100000)
    return prob


FINDING_SITES = {}


def judge(env, rec, case, results, solo, base_census, run, known_fn=None):
    """Compare the results of one schedule with the solo results. Returns True if clean."""
    if run.stuck or any(r is not None and r[0] == "stuck" for r in results):
        rec.inconc("schedule-stuck")
        return False
    clean = True
    for tid, (r, s) in enumerate(zip(results, solo)):
        if classify_result(r) != classify_result(s):
            clean = False
            detail = {"what": f"task {tid} ({case['kinds'][tid]}): solo {str(classify_result(s))[:160]} under this schedule {str(r)[:260]}", "switches": run.switches[:6]}
            known = known_fn(case, tid, r, s, run) if known_fn else None
            rec.report("task-result-differs-from-solo", case, detail, known=known)
    prob = lru_ok(env)
    if prob:
        clean = False
        rec.report("template-lru-invariant-broken", case, {"what": prob, "switches": run.switches[:6]}, known=known_fn(case, None, ("lru", prob), None, run) if known_fn else None)
    gc.collect()
    d = census.diff(base_census, census.snapshot(), ignore=("comp_hash_mapping", "media_cache", "component_node_subclasses_by_name", "template_cache.cache", "all_registries"))
    if d:
        clean = False
        rec.report("residue-after-join", case, {"what": f"{d}", "switches": run.switches[:6]}, known=known_fn(case, None, ("residue", d), None, run) if known_fn else None)
        # the registries are shared by later schedules: empty them so that one leak is reported once
        purge_registries()
    return clean


def purge_registries():
    import django_components.perfutil.component as pc
    import django_components.perfutil.provide as pp

    for c in (pc.component_context_cache, pc.component_renderer_cache, pc.child_component_attrs, pp.provide_cache, pp.provide_references, pp.all_reference_ids):
        c.clear()


def known_classifier(case, tid, r, s, run):
    """Mechanism-keyed attribution to listed findings (see known_findings.json)."""
    return None


def shared_site_predicate(kinds):
    """Yield points in the modules that hold the process-global state THIS workload touches: the template cache for
    cache-churn tasks, the provide registries for component programs, media resolution for first-media tasks."""
    files = {"template.py", "cache.py"}
    if any(k in ("program", "failing") for k in kinds):
        files.add("provide.py")
    if "shared_media" in kinds:
        files.add("component_media.py")
    if "media" in kinds:
        files = {"component_media.py"} if all(k == "media" for k in kinds) else files | {"component_media.py"}
    return lambda where: where.split(":")[0] in files


def explore_workload(env, rec, rng, spec, wi):
    ntasks = spec["ntasks"]
    # (the targeted strategy works on a template cache that is always full)
    cache_size = rng.choice([1, 1, 2]) if spec["strategy"] == "sites3" else rng.choice([1, 2, 128])
    mode = rng.choice(["django", "isolated"])
    kinds = None
    if spec.get("kinds"):
        kinds = list(spec["kinds"][wi % len(spec["kinds"])])
    with env.override_settings(COMPONENTS={"context_behavior": mode, "autodiscover": False, "template_cache_size": cache_size, "dirs": [env.files_dir]}):
        tasks, keep = make_workload(env, rng, ntasks, kinds)
        try:
            kinds = [k for k, _ in tasks]
            fns = [f for _, f in tasks]
            # --- solo results (each task alone, same process), then serial baseline census
            solo = []
            for tid, fn in enumerate(fns):
                reset_state(env, cache_size)
                run = sched.Run(env.watch, [fn], sched.run_to_completion([0]))
                solo.append(run.go()[0])
            reset_state(env, cache_size)
            run0 = sched.Run(env.watch, fns, sched.run_to_completion(list(range(ntasks))))
            res0 = run0.go()
            gc.collect()
            base_census = census.snapshot()
            case0 = {"kinds": kinds, "mode": mode, "cache_size": cache_size, "schedule": "serial", "workload_seed": [spec["seed"], spec["name"], wi]}
            rec.case(("serial", spec["name"], wi), nontrivial=False)
            judge(env, rec, case0, res0, solo, base_census, run0, known_classifier)
            rec.observe("schedules-executed")
            total_points = run0.points
            rec.count("yield_points_in_serial_runs", total_points)
            rec.count("line_events_inside_library_locks", run0.points_in_critical_sections)
            for _, _, where in run0.trace:
                rec.count("yp:" + where.split(":")[0].split("/")[-1])
            # --- schedules
            plans = []
            if spec["strategy"] == "preempt1":
                step = max(1, total_points // spec["max_schedules"])
                for first in range(ntasks):
                    order = [first] + [t for t in range(ntasks) if t != first]
                    for k in range(1, run0.points_per_task[first] + 1, step):
                        other = order[1]
                        plans.append(("p1", first, {k: other}, order))
            elif spec["strategy"] == "preempt2":
                for _ in range(spec["max_schedules"]):
                    first = rng.randrange(ntasks)
                    order = [first] + [t for t in range(ntasks) if t != first]
                    k1 = rng.randint(1, max(1, run0.points_per_task[first]))
                    k2 = k1 + rng.randint(1, max(1, total_points - k1))
                    plans.append(("p2", first, {k1: order[1], k2: first}, order))
            elif spec["strategy"] == "sites3":
                # up to three context switches, all of them at shared-state sites: A until its n1-th site -> B until its
                # m-th site -> A until its n2-th site -> B ... (enumerated when small, sampled otherwise)
                is_shared_site = shared_site_predicate(kinds)
                nsites = []
                for tid in range(ntasks):
                    nsites.append(sum(1 for _, t, where in run0.trace if t == tid and is_shared_site(where)))
                rec.count("shared_state_sites_in_serial_runs", sum(nsites))
                pairs_ab = [(a, b) for a in range(ntasks) for b in range(ntasks) if a != b]
                total = sum(nsites[a] + nsites[a] * (nsites[a] - 1) // 2 * nsites[b] for a, b in pairs_ab)
                rec.maxi("max:sites3_schedule_space", total)
                allp = []
                if total <= spec["max_schedules"]:
                    rec.count("sites3_exhaustive_workloads")
                    for a, b in pairs_ab:
                        for n1 in range(1, nsites[a] + 1):
                            allp.append((a, [(a, n1, b)]))
                            for m in range(1, nsites[b] + 1):
                                for n2 in range(n1 + 1, nsites[a] + 1):
                                    allp.append((a, [(a, n1, b), (b, m, a), (a, n2, b)]))
                else:
                    rec.count("sites3_sampled_workloads")
                    seen = set()
                    # every single-switch schedule first (when they fit into half of the budget), then sampled triples
                    if sum(nsites[a] for a, _ in pairs_ab) <= spec["max_schedules"] // 2:
                        rec.count("sites3_all_single_switches_workloads")
                        for a, b in pairs_ab:
                            for n1 in range(1, nsites[a] + 1):
                                allp.append((a, [(a, n1, b)]))
                                seen.add((a, ((a, n1, b),)))
                    for _ in range(spec["max_schedules"] * 3):
                        if len(allp) >= spec["max_schedules"]:
                            break
                        a, b = rng.choice(pairs_ab)
                        if nsites[a] < 1:
                            continue
                        n1 = rng.randint(1, nsites[a])
                        if rng.random() < 0.15 or nsites[b] < 1 or n1 >= nsites[a]:
                            pl = [(a, n1, b)]
                        else:
                            pl = [(a, n1, b), (b, rng.randint(1, nsites[b]), a), (a, rng.randint(n1 + 1, nsites[a]), b)]
                        key = (a, tuple(pl))
                        if key not in seen:
                            seen.add(key)
                            allp.append((a, pl))
                for first, pl in allp:
                    order = [first] + [t for t in range(ntasks) if t != first]
                    plans.append(("sites", first, pl, order))
            else:
                for _ in range(spec["max_schedules"]):
                    plans.append(("pct", rng.randrange(ntasks), rng.random(), None))
            for kind, first, arg, order in plans:
                reset_state(env, cache_size)
                if kind == "pct":
                    decide = sched.pct(random.Random(arg), ntasks, rng.randint(3, 6), max(total_points, 10))
                    sched_desc = {"pct_seed": arg}
                elif kind == "sites":
                    decide = sched.preempt_sites(arg, order, is_shared_site)
                    sched_desc = {"first": first, "sites": [list(x) for x in arg]}
                else:
                    decide = sched.preempt_at(arg, order)
                    sched_desc = {"first": first, "preempt": {str(k): v for k, v in arg.items()}}
                run = sched.Run(env.watch, fns, decide)
                res = run.go(first=first)
                rec.observe("schedules-executed")
                case = {"kinds": kinds, "mode": mode, "cache_size": cache_size, "schedule": sched_desc, "workload_seed": [spec["seed"], spec["name"], wi]}
                nt = bool(run.switches)
                rec.case((spec["name"], wi, kind, first, str(arg)), nontrivial=nt)
                for _, _, _, where in run.switches:
                    rec.count("preempt_at:" + where.split(":")[0])
                ok = judge(env, rec, case, res, solo, base_census, run, known_classifier)
                if ok and rec.want_sample() and nt and rng.random() < 0.02:
                    rec.sample({"kinds": kinds, "mode": mode, "schedule": sched_desc, "switches": run.switches[:4], "yield_points": run.points})
        finally:
            cleanup(env, keep)


def stress_workload(env, rec, rng, spec, wi):
    """Free-running threads with a 1 us switch interval: cross-check that the controlled scheduler does not
    manufacture impossible interleavings (violation classes seen there must be a subset)."""
    mode = rng.choice(["django", "isolated"])
    old = sys.getswitchinterval()
    with env.override_settings(COMPONENTS={"context_behavior": mode, "autodiscover": False, "template_cache_size": rng.choice([1, 2, 128])}):
        tasks, keep = make_workload(env, rng, 3)
        try:
            fns = [f for _, f in tasks]
            kinds = [k for k, _ in tasks]
            solo = []
            for fn in fns:
                try:
                    solo.append(("ok", fn()))
                except Exception as e:  # noqa: BLE001
                    solo.append(("exc", type(e).__name__))
            gc.collect()
            base = census.snapshot()
            sys.setswitchinterval(1e-6)
            results = [None] * len(fns)

            def body(i):
                for _ in range(spec["reps"]):
                    try:
                        r = ("ok", fns[i]())
                    except Exception as e:  # noqa: BLE001
                        r = ("exc", type(e).__name__, str(e)[:100])
                    if classify_result(r) != classify_result(solo[i]):
                        results[i] = r
                        return
                results[i] = solo[i]

            ths = [threading.Thread(target=body, args=(i,)) for i in range(len(fns))]
            for t in ths:
                t.start()
            for t in ths:
                t.join(60)
            sys.setswitchinterval(old)
            rec.observe("stress-runs")
            rec.case(("stress", spec["name"], wi), nontrivial=True)
            case = {"kinds": kinds, "mode": mode, "schedule": "free-running", "workload_seed": [spec["seed"], spec["name"], wi]}

            class R:
                stuck = False
                switches = []

            judge(env, rec, case, results, solo, base, R, known_classifier)
        finally:
            sys.setswitchinterval(old)
            cleanup(env, keep)


def plan(tier, seed):
    shards = []
    if tier == "quick":
        for i in range(10):
            shards.append({"name": f"p1_{i:02d}", "strategy": "preempt1", "ntasks": 2, "workloads": 3, "max_schedules": 400, "idx": i})
        for i in range(4):
            shards.append({"name": f"pct_{i:02d}", "strategy": "pct", "ntasks": 3, "workloads": 4, "max_schedules": 150, "idx": i})
        shards.append({"name": "stress", "strategy": "stress", "workloads": 6, "reps": 60, "idx": 0})
        for i in range(3):
            shards.append({"name": f"s3_{i:02d}", "strategy": "sites3", "ntasks": 2, "workloads": 3, "max_schedules": 1200, "idx": i, "kinds": [("shared_churn", "shared_churn"), ("shared_media", "shared_media"), ("churn", "shared_churn"), ("shared_churn", "program")][i:] + [("shared_media", "shared_media"), ("shared_churn", "shared_churn")]})
    else:
        for i in range(6):
            shards.append({"name": f"s3_{i:02d}", "strategy": "sites3", "ntasks": 2, "workloads": 4, "max_schedules": 6000, "idx": i, "kinds": [("shared_churn", "shared_churn"), ("shared_media", "shared_media"), ("churn", "shared_churn"), ("shared_churn", "program")]})
        for i in range(16):
            shards.append({"name": f"p1_{i:02d}", "strategy": "preempt1", "ntasks": 2, "workloads": 10, "max_schedules": 4000, "idx": i})
        for i in range(8):
            shards.append({"name": f"p2_{i:02d}", "strategy": "preempt2", "ntasks": 2, "workloads": 10, "max_schedules": 2000, "idx": i})
        for i in range(8):
            shards.append({"name": f"pct_{i:02d}", "strategy": "pct", "ntasks": 3, "workloads": 16, "max_schedules": 1500, "idx": i})
        shards.append({"name": "stress", "strategy": "stress", "workloads": 30, "reps": 200, "idx": 0})
    # make sure the pairs the property names are always present
    pairs = [("program", "failing"), ("churn", "churn"), ("media", "media"), ("parse", "program"), ("failing", "failing"), ("program", "program"), ("churn", "media")]
    for s in shards:
        if s["strategy"] in ("preempt1", "preempt2"):
            s["kinds"] = pairs[s["idx"] % len(pairs) :] + pairs[: s["idx"] % len(pairs)]
    return shards


def run_shard(spec, rec):
    env = Env()
    rng = random.Random(f"{spec['seed']}-c07-{spec['name']}")
    if spec["strategy"] == "stress":
        rec.require("stress-runs")
        for wi in range(spec["workloads"]):
            stress_workload(env, rec, rng, spec, wi)
        return
    rec.require("schedules-executed")
    rec.maxi("max:watched_code_objects", env.watch.ncodes)
    rec.maxi("max:tracked_library_locks", env.tracked_locks)
    for wi in range(spec["workloads"]):
        explore_workload(env, rec, random.Random(rng.random()), spec, wi)


def replay(case, rec):
    rec.case(("replay", 1))
    rec.case(("replay", 2))
    rec.note("C07 schedules replay through their shard: ./check C07 --shards <name> re-runs the same seeded workloads and schedules")
