"""C02 - tag arguments reach Python with exactly the values they denote.

Reference-model + metamorphic monitor.  For each generated argument-list AST (E4) the expected
(args, kwargs, flags) is computed by the reference evaluator (leaves by stock Django, containers
and spreads by Python); the AST is then written out in several layouts (whitespace, line breaks,
trailing commas, quote style, self-closing slash vs end tag) and compiled + rendered through
real templates with two receivers: a probe BaseNode registered with @template_tag (straight to
parse_tag) and a probe Component via {% component %} (split_contents + formatter re-join path).
Every layout of every receiver must deliver the expected call.  The documented-invalid family
must raise TemplateSyntaxError.
"""
import random

from vf.gen import taggrammar as tg

PROP = "C02"
LEVEL = "exploration"
RULE = (
    "argument-list ASTs from the E4 grammar (literals, variables, filter chains with arguments, translation strings, nested "
    "list/dict literals with */** spreads, top-level ... spreads, aggregate and special-character keys, flags, dynamic strings "
    "with {{ }} / {% %} / {# #}), each in 6-10 layouts x 2 receivers x 1-3 contexts; distinct by AST; non-trivial = AST uses at "
    "least one of: container, spread, filter, dynamic string, aggregate/special key"
)
ASSUMPTIONS = [
    "whitespace around '=' is significant in Django and is never generated; keys starting with ':' are not generated",
    "top-level duplicate keys are C11's domain (TypeError) and are not generated",
    "SafeString-ness of text values is ignored when comparing",
    "an exception raised by a stock Django filter (e.g. first on an int) must surface with the same class",
]



class Env:
    def __init__(self):
        from vf import boot

        boot.boot()
        from django.template import Context, Template
        from django.template.exceptions import TemplateSyntaxError

        from django_components import Component, registry, template_tag
        from django_components.templatetags.component_tags import register as library

        self.Context, self.Template, self.TSE = Context, Template, TemplateSyntaxError
        self.box = box = []

        @template_tag(library, tag="c02probe", end_tag="endc02probe", allowed_flags=list(tg.FLAGS))
        def c02probe(node, context, *args, **kwargs):
            box.append((list(args), dict(kwargs), dict(node.flags)))
            return ""

        class C02Comp(Component):
            template = ""

            def get_context_data(self, *args, **kwargs):
                box.append((list(args), dict(kwargs), None))
                return {}

        self.comp = C02Comp
        registry.register("c02comp", C02Comp)

        # receivers for {% slot %} kwargs (observed as slot data in a fill) and {% provide %} kwargs (observed
        # through inject()); both need the arguments inside a component template / around a consumer
        @template_tag(library, tag="c02grab", end_tag=None)
        def c02grab(node, context, value):
            box.append(([], dict(value), None))
            return ""

        class C02Inj(Component):
            template = ""

            def get_context_data(self):
                box.append(([], dict(self.inject("c02k")._asdict()), None))
                return {}

        registry.register("c02inj", C02Inj)
        self.Component, self.registry = Component, registry
        self.nslot = 0
        self.ev = tg.Evaluator()

    def run_source(self, source, ctxd):
        """-> ("ok", (args, kwargs, flags)) | ("exc", class name, message)"""
        self.box.clear()
        try:
            t = self.Template(source)
            # every other compiled template is first rendered with ANOTHER context: a node renders many times in its life
            # (loops, repeated requests) and each time its arguments denote the values of THAT context
            self.nrun = getattr(self, "nrun", 0) + 1
            if self.nrun % 2 == 0:
                decoy = next(c for c in tg.CONTEXTS if c is not ctxd and c != {k: v for k, v in ctxd.items() if k in c})
                try:
                    t.render(self.Context(dict(decoy)))
                except Exception:  # noqa: BLE001
                    pass
                self.box.clear()
            t.render(self.Context(dict(ctxd)))
        except Exception as e:  # noqa: BLE001
            return ("exc", type(e).__name__, str(e)[:300])
        if len(self.box) != 1:
            return ("exc", "ProbeNotCalledOnce", str(len(self.box)))
        return ("ok", self.box[0])


def kwargs_only(params, identifiers_only):
    """The sub-list of params usable on a kwargs-only tag; None if nothing is left."""
    import keyword

    out = []
    for p in params:
        if p[0] == "kw":
            key = p[1]
            if identifiers_only and (":" in key or not key.isidentifier() or keyword.iskeyword(key) or key.startswith("_")):
                continue
            if key in ("name", "default", "required"):
                continue
            out.append(p)
        elif p[0] == "spread" and p[1][0] == "var" and p[1][1] in tg.VARS_MAP and not identifiers_only:
            out.append(p)
    return out or None


def run_slot_receiver(env, ps, src_args, ctxd):
    """{% slot "s" <args> / %} inside a fresh component template; the fill grabs the slot data."""
    env.nslot += 1
    name = f"c02slot{env.nslot}"
    cls = type("C02Slot%d" % env.nslot, (env.Component,), {"template": '{% slot "s"' + src_args + " / %}"})
    env.registry.register(name, cls)
    try:
        return env.run_source('{% component "' + name + '" %}{% fill "s" data="d" %}{% c02grab d %}{% endfill %}{% endcomponent %}', ctxd)
    finally:
        env.registry.unregister(name)


def run_provide_receiver(env, ps, src_args, ctxd):
    return env.run_source('{% provide "c02k"' + src_args + ' %}{% component "c02inj" / %}{% endprovide %}', ctxd)


def nontrivial(features):
    return bool(features & {"list", "dict", "filter", "dynamic-string", "aggregate-key", "special-key", "top-spread-list", "top-spread-dict", "translation"})


def build_source(params, receiver, layout_seed, li, spread_literal_ws=True):
    L = tg.Layout(random.Random(layout_seed), loose=(li > 0), spread_literal_ws=spread_literal_ws)
    body = tg.render_params(params, L)
    if receiver == "probe":
        if L.rng.random() < 0.5:
            return "{% c02probe" + body + L.ws(must=True) + "/" + L.ws(0.5) + "%}"
        return "{% c02probe" + body + L.ws(0.5, must=li == 0) + "%}{% endc02probe %}"
    q = L.quote()
    if L.rng.random() < 0.5:
        return "{% component " + q + "c02comp" + q + body + L.ws(must=True) + "/" + L.ws(0.5) + "%}"
    return "{% component " + q + "c02comp" + q + body + L.ws(0.5, must=li == 0) + "%}{% endcomponent %}"


def sources_for(params, rng, receiver, n_layouts):
    """-> list of (source, layout_seed, layout_index)"""
    out = []
    for li in range(n_layouts):
        seed = rng.random()
        out.append((build_source(params, receiver, seed, li), seed, li))
    return out


def has_feature(params, pred):
    def walk(n):
        if isinstance(n, list):
            if n and isinstance(n[0], str) and pred(n):
                return True
            return any(walk(x) for x in n)
        return False

    return walk(params)


def classify(env, params, exp, got, receiver, seed, li, src, ctxd):
    """No listed findings for C02 (the defects this check found were repaired by fix: commits and
    their defect models deleted), so every mismatch is a violation."""
    return None


def check_ast(env, rec, params, features, rng, ctx_indices, n_layouts, case_base):
    for ci in ctx_indices:
        ctxd = tg.CONTEXTS[ci]
        if tg.spread_key_conflicts(params, ctxd):
            rec.count("skipped_spread_key_conflict")
            continue
        try:
            e_args, e_kwargs, e_flags = env.ev.params(params, env.Context(dict(ctxd)))
            exp = ("ok", tg.norm_call(e_args, e_kwargs), e_flags)
        except Exception as e:  # noqa: BLE001
            exp = ("exc", type(e).__name__)
            rec.count("reference_raises:" + type(e).__name__)
        rec.observe("reference-evaluations")
        for receiver in ("probe", "component"):
            ps = params if receiver == "probe" else [p for p in params if p[0] != "flag"]
            if receiver == "component":
                e_flags2 = None
            for src, lseed, li in sources_for(ps, rng, receiver, n_layouts):
                got = env.run_source(src, ctxd)
                rec.observe("renders-compared")
                prob = None
                if exp[0] == "ok":
                    if got[0] != "ok":
                        prob = f"reference gives a value but the tag raised {got[1]}: {got[2]}"
                    else:
                        g = tg.norm_call(got[1][0], got[1][1])
                        if g != exp[1]:
                            prob = f"received {got[1][0]!r} {got[1][1]!r}, expected call {e_args!r} {e_kwargs!r}"
                        elif receiver == "probe" and got[1][2] != exp[2]:
                            prob = f"flags {got[1][2]} expected {exp[2]}"
                else:
                    if got[0] == "ok":
                        prob = f"reference raises {exp[1]} but the tag delivered {got[1][0]!r} {got[1][1]!r}"
                    elif got[1] != exp[1]:
                        prob = f"reference raises {exp[1]} but the tag raised {got[1]}: {got[2]}"
                if prob:
                    case = dict(case_base, params=ps, ctx=ci, source=src, receiver=receiver, layout_seed=lseed, layout_index=li)
                    rec.report("wrong-arguments", case, {"what": prob, "source": src}, known=classify(env, ps, exp, got, receiver, lseed, li, src, ctxd))
                    break  # one report per (ast, ctx, receiver)
        # kwargs-only receivers: {% slot %} data and {% provide %} payload (django mode so that the page
        # variables are visible inside the component template that holds the slot tag)
        for receiver, ident_only, runner in (("slot", False, run_slot_receiver), ("provide", True, run_provide_receiver)):
            ps = kwargs_only(params, ident_only)
            if ps is None:
                continue
            try:
                e_args, e_kwargs, _ = env.ev.params(ps, env.Context(dict(ctxd)))
                exp2 = ("ok", tg.norm_call([], e_kwargs))
            except Exception as e:  # noqa: BLE001
                exp2 = ("exc", type(e).__name__)
            for li in range(2):
                lseed = rng.random()
                L = tg.Layout(random.Random(lseed), loose=(li > 0))
                src_args = tg.render_params(ps, L)
                got = runner(env, ps, src_args, ctxd)
                rec.observe("renders-compared")
                rec.count("receiver:" + receiver)
                prob = None
                if exp2[0] == "ok":
                    if got[0] != "ok":
                        prob = f"reference gives a value but the tag raised {got[1]}: {got[2]}"
                    elif tg.norm_call([], got[1][1]) != exp2[1]:
                        prob = f"received {got[1][1]!r}, expected {e_kwargs!r}"
                elif got[0] == "ok" or got[1] != exp2[1]:
                    prob = f"reference raises {exp2[1]} but got {got[:2]!r}"
                if prob:
                    rec.violation("wrong-arguments", dict(case_base, params=ps, ctx=ci, source=src_args, receiver=receiver), {"what": prob, "source": src_args})
                    break


def plan(tier, seed):
    n = 12000 if tier == "quick" else 300000
    nshard = 15 if tier == "quick" else 32
    shards = [{"name": f"gen_{i:02d}", "kind": "gen", "n": n // nshard, "idx": i, "depth": 4 if tier == "quick" else 6} for i in range(nshard)]
    shards.append({"name": "invalid", "kind": "invalid", "n": 1500 if tier == "quick" else 30000})
    return shards


def run_shard(spec, rec):
    env = Env()
    rec.require("reference-evaluations", "renders-compared")
    if spec["kind"] == "invalid":
        return shard_invalid(env, spec, rec)
    rng = random.Random(f"{spec['seed']}-c02-{spec['idx']}")
    for i in range(spec["n"]):
        g = tg.Gen(random.Random(rng.random()), max_depth=spec["depth"])
        params = g.params()
        feats = set(g.features)
        for f in feats:
            rec.count("feature:" + f)
        nt = nontrivial(feats)
        rec.case(params, nontrivial=nt)
        ctxs = [rng.randrange(3)] if rng.random() < 0.7 else [0, 1, 2]
        check_ast(env, rec, params, feats, rng, ctxs, rng.randint(3, 5), {"kind": "gen"})
        if nt and rec.want_sample() and i % 53 == 0:
            rec.sample({"layouts": [x[0] for x in sources_for(params, random.Random(1), "probe", 3)]})


def shard_invalid(env, spec, rec):
    rng = random.Random(f"{spec['seed']}-c02-invalid")
    rec.require("invalid-cases-checked")
    for i in range(spec["n"]):
        args = tg.invalid_cases(rng)
        receiver = rng.choice(["probe", "component"])
        if receiver == "probe":
            src = "{% c02probe " + args + " / %}"
        else:
            src = '{% component "c02comp" ' + args + " / %}"
        ctxd = dict(tg.CONTEXTS[0], x=[1, 2])
        got = env.run_source(src, ctxd)
        rec.observe("invalid-cases-checked")
        rec.observe("renders-compared")
        rec.observe("reference-evaluations")
        rec.case(("invalid", src), nontrivial=True)
        if got[0] == "ok":
            rec.violation("invalid-combination-accepted", {"kind": "invalid", "source": src}, {"what": f"delivered {got[1][0]!r} {got[1][1]!r}", "source": src})
        elif got[1] != "TemplateSyntaxError":
            rec.violation("invalid-combination-wrong-error", {"kind": "invalid", "source": src}, {"what": f"raised {got[1]}: {got[2]}", "source": src})
        else:
            rec.count("invalid_rejected")


def replay(case, rec):
    env = Env()
    env.nrun = 1  # the replayed source is rendered with the decoy context first (see run_source)
    rec.case(("replay", 1))
    rec.case(("replay", 2))
    rec.observe("reference-evaluations")
    rec.observe("renders-compared")
    if case.get("kind") == "invalid":
        got = env.run_source(case["source"], dict(tg.CONTEXTS[0], x=[1, 2]))
        if got[0] == "ok" or got[1] != "TemplateSyntaxError":
            rec.violation("invalid-combination", case, {"what": repr(got)})
        return
    # replay the exact source that failed, against the reference value of the stored AST
    params, ci, src = case["params"], case["ctx"], case["source"]
    ctxd = tg.CONTEXTS[ci]
    try:
        e_args, e_kwargs, e_flags = env.ev.params(params, env.Context(dict(ctxd)))
        exp = ("ok", tg.norm_call(e_args, e_kwargs), e_flags)
    except Exception as e:  # noqa: BLE001
        exp = ("exc", type(e).__name__)
    got = env.run_source(src, ctxd)
    ok = (exp[0] == "ok" and got[0] == "ok" and tg.norm_call(got[1][0], got[1][1]) == exp[1]) or (exp[0] == "exc" and got[0] == "exc" and got[1] == exp[1])
    if not ok:
        rec.report("wrong-arguments", case, {"what": f"got {got!r} expected {exp!r}"}, known=classify(env, params, exp, got, case["receiver"], case.get("layout_seed"), case.get("layout_index", 1), src, ctxd))
