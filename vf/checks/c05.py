"""C05 - inject() returns the nearest enclosing {% provide %} of the rendered structure.

Reference-model monitor (E1 interpreter: providers follow the *rendered* structure - page ->
component template -> slot tag -> fill body) on programs whose consumers echo what inject() gave
them (each provider kwarg names the provider instance, loop providers also the iteration);
history monitor: sequences of 2-6 programs (some failing) rendered in one process must give, at
every position, the same normalised output as the program alone; quiescent invariant: the
provide registries found by the container census are empty after every top-level render.
"""
import random

from vf import e1run
from vf.checks.c01 import compare
from vf.gen import program as pg
from vf.mon import census

PROP = "C05"
LEVEL = "exploration"
RULE = (
    "E1 programs in the 'provide' flavour: {% provide %} at page level and inside component templates, nested, shadowing the same key, "
    "two keys, around slots, inside fills, in loops (kwargs naming provider site and iteration), 0..n consuming components as siblings "
    "and descendants, consumers with / without default; both context behaviours; plus histories of 2-6 such programs per process; "
    "distinct by program AST; non-trivial = at least one inject() resolved to a provider"
)
ASSUMPTIONS = [
    "a {% provide %} placed between a component tag and its {% fill %} tags is not generated (DESIGN.md §4)",
    "inject(key) without default and without provider raises KeyError (documented); with several independent failing components any error class that some evaluation order meets first is accepted",
]


def gen(rng):
    for _ in range(20):
        g = pg.ProgGen(random.Random(rng.random()), "provide", nclasses=rng.randint(2, 4), pyrender=True)
        prog = g.program()
        refs = [e1run.reference(prog, m) for m in ("django", "isolated")]
        if all(r[0] != "unspec" for r in refs):
            return prog, refs
    return None, None


def provide_census():
    return {k: v for k, v in census.snapshot().items() if "provide" in k.rsplit(".", 2)[-2] + k.rsplit(".", 1)[-1] or "provide" in k}


def run_program(env, rec, prog, refs, seedinfo, history=None):
    nontrivial = False
    for mode, ref in zip(("django", "isolated"), refs):
        it = ref[-1]
        built = env.build(prog)
        before = provide_census()
        try:
            got = env.render(built, mode, "tag", limit=20 * len(it.instances) + 50)
        finally:
            built.dispose()
        rec.observe("renders-compared")
        case = {"program": prog, "mode": mode, "seed": seedinfo, "history": history}
        prob = compare(ref, got)
        if prob:
            b = pg.Built(prog, "w")
            rec.violation(prob[0], case, {"what": prob[1][:500], "page": b.page_src[:500], "templates": {c: cls.template[:300] for c, cls in b.classes.items()}, "inject": {c: s.get("inject") for c, s in prog["classes"].items()}})
            b.dispose()
            return nontrivial
        if ref[0] == "ok":
            rec.count("ev:inject_hit", it.events["inject_hit"])
            rec.count("ev:inject_default", it.events["inject_default"])
            rec.count("ev:providers", it.provider_count)
            if it.events["inject_hit"]:
                nontrivial = True
        else:
            rec.count("expected_error:" + ref[1])
        if ref[0] == "ok":
            # quiescent invariant after a *successful* top-level render: the provide registries hold nothing
            # new (what a failed render leaves behind is C06's subject and may pre-date this render)
            pc = provide_census()
            rec.observe("registry-empty-checks")
            if pc != before:
                rec.violation("provide-registry-grew-over-successful-render", case, {"what": f"before {before} after {pc}"})
                return nontrivial
            if not any(pc.values()):
                rec.count("registry_checks_with_empty_registries")
    return nontrivial


def plan(tier, seed):
    n = 3000 if tier == "quick" else 100000
    h = 300 if tier == "quick" else 10000
    nshard = 12 if tier == "quick" else 28
    shards = [{"name": f"gen_{i:02d}", "kind": "gen", "n": n // nshard, "idx": i} for i in range(nshard)]
    for i in range(3 if tier == "quick" else 4):
        shards.append({"name": f"hist_{i}", "kind": "hist", "n": h // (3 if tier == "quick" else 4), "idx": i})
    return shards


def run_shard(spec, rec):
    env = e1run.E1Env()
    rec.require("renders-compared", "registry-empty-checks")
    rng = random.Random(f"{spec['seed']}-c05-{spec['kind']}-{spec['idx']}")
    if spec["kind"] == "gen":
        for i in range(spec["n"]):
            prog, refs = gen(rng)
            if prog is None:
                continue
            nt = run_program(env, rec, prog, refs, [spec["seed"], spec["idx"], i])
            rec.case(prog, nontrivial=nt)
            for f in pg.digest_features(prog):
                rec.count("feature:" + f)
            if nt and rec.want_sample() and i % 31 == 0:
                b = pg.Built(prog, "sample")
                rec.sample({"page": b.page_src[:400], "templates": {c: cls.template[:300] for c, cls in b.classes.items()}, "inject": {c: s.get("inject") for c, s in prog["classes"].items()}})
                b.dispose()
    else:
        rec.require("history-positions-compared")
        for i in range(spec["n"]):
            progs = []
            for _ in range(rng.randint(2, 6)):
                prog, refs = gen(rng)
                if prog is not None:
                    progs.append((prog, refs))
            # render the same programs at several positions of the history
            order = list(range(len(progs))) + [rng.randrange(len(progs)) for _ in range(rng.randint(1, 3))] if progs else []
            nt = False
            for pos, pi in enumerate(order):
                prog, refs = progs[pi]
                nt |= run_program(env, rec, prog, refs, [spec["seed"], spec["idx"], i, pos], history=[pos, len(order), sum(1 for _, r in progs if r[0][0] != "ok")])
                rec.observe("history-positions-compared")
            rec.case(("hist", [p for p, _ in progs], order), nontrivial=nt)
            if any(r[0][0] != "ok" for _, r in progs):
                rec.count("histories_with_failing_render")


def replay(case, rec):
    env = e1run.E1Env()
    rec.case(("replay", 1))
    rec.case(("replay", 2))
    prog = case["program"]
    refs = [e1run.reference(prog, m) for m in ("django", "isolated")]
    rec.note("history-dependent violations need the whole shard; this replays the program alone")
    run_program(env, rec, prog, refs, case.get("seed"))
