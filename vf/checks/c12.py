"""C12 - parsing any tag or template terminates with success or TemplateSyntaxError.

Monitors around every parse of the real code:
  * exception-type monitor: anything other than TemplateSyntaxError is a violation;
  * logical step budget: sys.monitoring LINE events inside the scanner modules are counted and the
    callback *raises* when steps exceed a*n^2 + b (deterministic hang / blow-up detection);
  * doubling monitor on scaled families: steps(2n)/steps(n) must stay below 4.5 (quadratic bound);
  * a generous 20 s alarm per parse for time spent inside C-level regex calls (the only wall-clock
    verdict; normal parses take microseconds);
  * round-trip monitor for tags of the documented grammar: parse(serialize(parse(t))) == parse(t).
Workloads: every string over a 22-symbol syntax alphabet up to a length bound (exhaustive), random
long strings, single-edit mutations of valid E4 tags, whole-template sources, scaled repetitions.
"""
import itertools
import random
import signal
import sys

from vf.gen import taggrammar as tg

PROP = "C12"
LEVEL = "exploration"
RULE = (
    "all strings over the 22-symbol alphabet [\" ' [ ] { } : , | = ... * ** _( ) \\ space newline a 1 / %}] up to the stated "
    "length, each fed to parse_tag and compiled inside {% slot %}/{% component %}/{% html_attrs %}/{% provide %}/{% fill %}; random "
    "strings to length 200; single-edit mutations of valid grammar-generated tags; generated whole-template sources; each family "
    "re-run at x2 and x4 length with a LINE-event step count; distinct by input string; non-trivial = contains a quote, bracket, "
    "brace, spread token, translation opener or tag delimiter"
)
ASSUMPTIONS = [
    "step budget: LINE events inside util/tag_parser.py, util/template_parser.py, util/template_tag.py, expression.py <= 60*n^2 + 4000*n + 20000 for input length n",
    "time inside C-level regex matching is invisible to LINE events; it is bounded by a 20 s alarm per parse (a 10^5-fold margin)",
]

KNOWN_VERBATIM = "C12-django-verbatim-followed-by-non-space-whitespace"

ALPHA = ['"', "'", "[", "]", "{", "}", ":", ",", "|", "=", "...", "*", "**", "_(", ")", "\\", " ", "\n", "a", "1", "/", "%}"]
STRUCT14 = ['"', "'", "[", "]", "{", "}", ":", ",", "|", "=", "...", "*", "_(", " "]
NONTRIVIAL = set('"\'[]{}*') | {"...", "**", "_(", "%}"}
CONTEXTS = [
    "{{% slot {s} %}}{{% endslot %}}",
    '{{% slot "n" {s} %}}{{% endslot %}}',
    "{{% component {s} %}}{{% endcomponent %}}",
    '{{% component "c12c" {s} %}}{{% endcomponent %}}',
    "{{% html_attrs {s} %}}",
    "{{% provide {s} %}}{{% endprovide %}}",
    '{{% provide "k" {s} %}}{{% endprovide %}}',
    "{{% fill {s} %}}{{% endfill %}}",
    '{{% component "c12c" %}}{{% fill "a" {s} %}}{{% endfill %}}{{% endcomponent %}}',
    "{{% c12probe {s} %}}",
]


class StepBudgetExceeded(BaseException):
    pass


class Steps:
    """LINE-event counter over the scanner modules (sys.monitoring, Python 3.12)."""

    TOOL = 3

    def __init__(self):
        self.n = 0
        self.limit = None
        self.codes = 0
        mon = sys.monitoring
        mon.use_tool_id(self.TOOL, "vf-c12-steps")
        mon.register_callback(self.TOOL, mon.events.LINE, self._line)
        import django_components.expression as m3
        import django_components.util.tag_parser as m1
        import django_components.util.template_parser as m2
        import django_components.util.template_tag as m4

        seen = set()

        def walk(code):
            if code in seen:
                return
            seen.add(code)
            mon.set_local_events(self.TOOL, code, mon.events.LINE)
            for c in code.co_consts:
                if hasattr(c, "co_code"):
                    walk(c)

        for m in (m1, m2, m3, m4):
            for obj in vars(m).values():
                fn = getattr(obj, "__func__", obj)
                code = getattr(fn, "__code__", None)
                if code is not None and getattr(fn, "__module__", None) == m.__name__:
                    walk(code)
                if isinstance(obj, type) and obj.__module__ == m.__name__:
                    for v in vars(obj).values():
                        v = getattr(v, "__func__", v)
                        if isinstance(v, property):
                            v = v.fget
                        c = getattr(v, "__code__", None)
                        if c is not None:
                            walk(c)
        self.codes = len(seen)

    def _line(self, code, lineno):
        self.n += 1
        if self.limit is not None and self.n > self.limit:
            lim, self.limit = self.limit, None
            raise StepBudgetExceeded(f"more than {lim} LINE events (at {code.co_filename.rsplit('/', 1)[-1]}:{lineno})")

    def start(self, limit):
        self.n = 0
        self.limit = limit


def budget(n):
    return 60 * n * n + 4000 * n + 20000


class AlarmFired(BaseException):
    pass


class TooManyTimeouts(Exception):
    pass


def _alarm(signum, frame):
    raise AlarmFired()


class Env:
    def __init__(self):
        from vf import boot

        boot.boot()
        from django.template import Template
        from django.template.exceptions import TemplateSyntaxError

        from django_components import Component, registry, template_tag
        from django_components.templatetags.component_tags import register as library
        from django_components.util.tag_parser import parse_tag

        self.Template, self.TSE, self.parse_tag = Template, TemplateSyntaxError, parse_tag

        @template_tag(library, tag="c12probe", end_tag=None, allowed_flags=["flagx"])
        def c12probe(node, context, *args, **kwargs):
            return ""

        class C12C(Component):
            template = '{% slot "a" / %}'

        self.comp = C12C
        registry.register("c12c", C12C)
        self.steps = Steps()
        signal.signal(signal.SIGALRM, _alarm)

    def inherited_from_django(self, e, src):
        """Defect model of the listed finding KNOWN_VERBATIM (mechanism-keyed): the exception is the AttributeError that
        Django's own {% verbatim %} compile function raises when it renders, at parse time and with an unbound
        Context, a body that the lexer did not tokenize in verbatim mode (Lexer.create_token only recognises
        'verbatim' followed by a SPACE or nothing), AND unpatched Django (methods saved before django.setup()) fails in
        the same way on the same source."""
        import traceback

        from vf import boot

        if src is None or type(e) is not AttributeError or "'NoneType' object has no attribute 'engine'" not in str(e):
            return None
        frames = traceback.extract_tb(e.__traceback__)
        if not any(fr.filename.endswith("django/template/defaulttags.py") and fr.name == "verbatim" for fr in frames):
            return None
        T = self.Template
        saved = (T.compile_nodelist, T.render)
        T.compile_nodelist, T.render = boot.ORIG["compile_nodelist"], boot.ORIG["render"]
        try:
            T(src)
        except AttributeError as e2:
            if str(e2) == str(e):
                return KNOWN_VERBATIM
        except Exception:  # noqa: BLE001
            return None
        finally:
            T.compile_nodelist, T.render = saved
        return None

    def guarded(self, rec, fn, n, case, what, src=None):
        """Run fn() under the monitors. Returns ("ok", value) | ("tse",) | ("viol",)"""
        self.steps.start(budget(n))
        signal.alarm(20)
        try:
            v = fn()
            return ("ok", v)
        except self.TSE:
            return ("tse",)
        except StepBudgetExceeded as e:
            rec.violation("step-budget-exceeded", case, {"what": f"{what}: {e}", "n": n})
            return ("viol",)
        except AlarmFired:
            rec.violation("parse-did-not-return-in-20s", case, {"what": what, "n": n})
            self.timeouts = getattr(self, "timeouts", 0) + 1
            if self.timeouts >= 5:
                # each further one costs 20 s and says nothing new: end the shard (the violations stand)
                raise TooManyTimeouts()
            return ("viol",)
        except RecursionError as e:
            rec.violation("raised-RecursionError", case, {"what": f"{what}: {str(e)[:100]}"})
            return ("viol",)
        except Exception as e:  # noqa: BLE001
            rec.report("raised-" + type(e).__name__, case, {"what": f"{what}: {type(e).__name__}: {str(e)[:200]}"}, known=self.inherited_from_django(e, src))
            return ("viol",)
        finally:
            signal.alarm(0)
            self.steps.limit = None
            rec.observe("parses-monitored")

    def parse_direct(self, rec, s, case=None):
        case = case or {"kind": "tag", "text": s}
        r = self.guarded(rec, lambda: self.parse_tag(s, None), len(s), case, "parse_tag")
        rec.maxi("max:steps_per_parse_tag", self.steps.n)
        return r

    def compile_in(self, rec, s, ctx_i, case=None):
        src = CONTEXTS[ctx_i].format(s=s)
        case = case or {"kind": "template", "source": src}
        return self.guarded(rec, lambda: self.Template(src), len(src), case, "Template()", src=src)


def strip_pos(attrs):
    return [(a.key, a.value) for a in attrs]


def is_nontrivial(symbols):
    return any(x in NONTRIVIAL for x in symbols)


def plan(tier, seed):
    if tier == "quick":
        L, nsh, L14 = 4, 22, 0
        rnd, mut, tmpl, rt, scale = 6000, 6000, 4000, 4000, 70
    else:
        L, nsh, L14 = 5, 22 * 4, 6
        rnd, mut, tmpl, rt, scale = 200000, 200000, 100000, 100000, 600
    shards = []
    firsts = list(range(len(ALPHA)))
    if tier == "quick":
        for i in range(nsh):
            shards.append({"name": f"enum{L}_{i:02d}", "kind": "enum", "alpha": "A", "L": L, "first": [firsts[i]], "second": None})
    else:
        for i in range(len(ALPHA)):
            for j in range(4):
                shards.append({"name": f"enum{L}_{i:02d}_{j}", "kind": "enum", "alpha": "A", "L": L, "first": [i], "second": list(range(len(ALPHA)))[j::4]})
        for i in range(len(STRUCT14)):
            shards.append({"name": f"enum14_{i:02d}", "kind": "enum", "alpha": "S", "L": L14, "first": [i], "second": None})
    for i in range(2 if tier == "quick" else 16):
        shards.append({"name": f"rand_{i}", "kind": "rand", "n": rnd // (2 if tier == "quick" else 16), "idx": i})
        shards.append({"name": f"mut_{i}", "kind": "mut", "n": mut // (2 if tier == "quick" else 16), "idx": i})
        shards.append({"name": f"tmpl_{i}", "kind": "tmpl", "n": tmpl // (2 if tier == "quick" else 16), "idx": i})
        shards.append({"name": f"rt_{i}", "kind": "roundtrip", "n": rt // (2 if tier == "quick" else 16), "idx": i})
    shards.append({"name": "scale", "kind": "scale", "n": scale})
    return shards


def run_shard(spec, rec):
    env = Env()
    rec.require("parses-monitored")
    rec.count("monitored_code_objects", 0)
    rec.maxi("max:monitored_code_objects", env.steps.codes)
    kind = spec["kind"]
    try:
        if kind == "enum":
            shard_enum(env, spec, rec)
        elif kind == "rand":
            shard_rand(env, spec, rec)
        elif kind == "mut":
            shard_mut(env, spec, rec)
        elif kind == "tmpl":
            shard_tmpl(env, spec, rec)
        elif kind == "roundtrip":
            shard_roundtrip(env, spec, rec)
        else:
            shard_scale(env, spec, rec)
    except TooManyTimeouts:
        rec.count("shards_ended_after_5_timeouts")
        rec.exhaustive = False


def shard_enum(env, spec, rec):
    alpha = ALPHA if spec["alpha"] == "A" else STRUCT14
    L = spec["L"]
    k = 0
    for ln in range(1, L + 1):
        for f in spec["first"]:
            seconds = spec["second"] if (spec["second"] is not None and ln >= 2) else None
            if ln == 1:
                if spec["second"] is not None and 0 not in spec["second"]:
                    continue
                tails = [()]
            elif seconds is not None:
                tails = ((alpha[s],) + t for s in seconds for t in itertools.product(alpha, repeat=ln - 2))
            else:
                tails = itertools.product(alpha, repeat=ln - 1)
            for tail in tails:
                syms = (alpha[f],) + tuple(tail)
                s = "".join(syms)
                k += 1
                nt = is_nontrivial(syms)
                rec.case(s, nontrivial=nt)
                r = env.parse_direct(rec, s)
                rec.count("direct_" + r[0])
                # two template contexts per string, rotating over all of them
                for ci in ((k) % len(CONTEXTS), (k * 7 + 3) % len(CONTEXTS)):
                    r2 = env.compile_in(rec, s, ci)
                    rec.count("template_" + r2[0])
                if nt and rec.want_sample() and k % 9973 == 0:
                    rec.sample({"text": s, "parse_tag": r[0]})
    rec.exhaustive = True


def shard_rand(env, spec, rec):
    rng = random.Random(f"{spec['seed']}-c12rand-{spec['idx']}")
    for i in range(spec["n"]):
        n = rng.choice([5, 8, 13, 21, 40, 80, 200])
        weights = [3 if a in ('"', "'", "[", "]", "{", "}", " ") else 1 for a in ALPHA]
        syms = rng.choices(ALPHA, weights=weights, k=n)
        s = "".join(syms)
        rec.case(s, nontrivial=is_nontrivial(syms))
        r = env.parse_direct(rec, s)
        rec.count("direct_" + r[0])
        r2 = env.compile_in(rec, s, rng.randrange(len(CONTEXTS)))
        rec.count("template_" + r2[0])
    rec.exhaustive = False


def valid_tag(rng, depth=4):
    g = tg.Gen(random.Random(rng.random()), max_depth=depth)
    params = g.params()
    L = tg.Layout(random.Random(rng.random()), loose=rng.random() < 0.7)
    return params, tg.render_params(params, L).strip()


def shard_mut(env, spec, rec):
    rng = random.Random(f"{spec['seed']}-c12mut-{spec['idx']}")
    for i in range(spec["n"]):
        _, s = valid_tag(rng)
        if not s:
            continue
        pos = rng.randrange(len(s) + 1)
        r = rng.random()
        if r < 0.35:
            m = s[:pos] + s[pos + 1 :]
        elif r < 0.7:
            m = s[:pos] + rng.choice(ALPHA) + s[pos:]
        elif r < 0.9:
            m = s[:pos] + rng.choice(ALPHA) + s[pos + 1 :]
        else:
            a, b = sorted((pos, rng.randrange(len(s) + 1)))
            m = s[:a] + s[b:]
        rec.case(m, nontrivial=True)
        r1 = env.parse_direct(rec, m)
        rec.count("direct_" + r1[0])
        r2 = env.compile_in(rec, m, rng.choice([1, 3, 4, 6, 8, 9]))
        rec.count("template_" + r2[0])
        if rec.want_sample() and i % 997 == 0:
            rec.sample({"valid": s, "mutated": m, "parse_tag": r1[0], "template": r2[0]})
    rec.exhaustive = False


def shard_tmpl(env, spec, rec):
    from vf.checks import c09

    rng = random.Random(f"{spec['seed']}-c12tmpl-{spec['idx']}")
    for i in range(spec["n"]):
        if rng.random() < 0.6:
            src = c09.gen_source(rng)
        else:
            # component-flavoured sources
            parts = []
            for _ in range(rng.randint(1, 6)):
                _, s = valid_tag(rng, depth=2)
                parts.append(rng.choice(CONTEXTS).format(s=s))
                if rng.random() < 0.3:
                    parts.append(rng.choice(["{% endslot %}", "{% endcomponent %}", "{% fill %}", "{{ x }}", "text", "{% endfill %}", "{% component %}", "{% slot %}"]))
            src = "".join(parts)
        rec.case(src, nontrivial=True)
        r = env.guarded(rec, lambda: env.Template(src), len(src), {"kind": "template", "source": src}, "Template()", src=src)
        rec.count("template_" + r[0])
    rec.exhaustive = False


def shard_roundtrip(env, spec, rec):
    rng = random.Random(f"{spec['seed']}-c12rt-{spec['idx']}")
    rec.require("roundtrips-checked")
    for i in range(spec["n"]):
        _, s = valid_tag(rng)
        s = "tagname " + s
        case = {"kind": "roundtrip", "text": s}
        rec.case(("rt", s), nontrivial=True)
        r = env.parse_direct(rec, s, case)
        if r[0] != "ok":
            if r[0] == "tse":
                rec.violation("valid-tag-rejected", case, {"what": "a tag generated from the documented grammar was rejected by parse_tag"})
            continue
        _, attrs = r[1]
        try:
            ser = " ".join(a.serialize() for a in attrs)
        except Exception as e:  # noqa: BLE001
            rec.violation("serialize-raised-" + type(e).__name__, case, {"what": str(e)[:200]})
            continue
        r2 = env.parse_direct(rec, ser, case)
        rec.observe("roundtrips-checked")
        if r2[0] != "ok":
            rec.violation("roundtrip-reparse-failed", case, {"what": f"serialisation {ser!r} does not parse: {r2[0]}"})
            continue
        if strip_pos(r2[1][1]) != strip_pos(attrs):
            rec.violation("roundtrip-differs", case, {"what": f"serialisation {ser!r} parses to different arguments"})
        elif rec.want_sample() and i % 499 == 0:
            rec.sample({"tag": s, "canonical": ser})
    rec.exhaustive = False


def shard_scale(env, spec, rec):
    """Scaled families: steps(n), steps(2n), steps(4n)."""
    rng = random.Random(f"{spec['seed']}-c12scale")
    rec.require("doubling-ratios-checked")
    fams = [
        lambda k: "[" * k, lambda k: "[" * k + "]" * k, lambda k: "{" * k, lambda k: '"' + "a" * k, lambda k: "a|" * k, lambda k: "a=" * k,
        lambda k: " ".join(["k%d=[1,2,{\"a\":v|f:1}]" % i for i in range(k)]), lambda k: "x " * k, lambda k: "'" * k, lambda k: "_(" * k,
        lambda k: "[" + "1," * k + "]", lambda k: "{" + '"a":1,' * k + "}", lambda k: "..." * k, lambda k: "*" * k, lambda k: "\\" * k + '"',
        lambda k: '"' + "\\\\" * k + '"', lambda k: "a" + "|f:b" * k, lambda k: "[" + "*a," * k + "]", lambda k: '"{{ a }}' * k + '"', lambda k: "\n" * k + "a",
        lambda k: '"' + "{% x %}" * k + '"', lambda k: "k=" + "[" * k + "1" + "]" * k, lambda k: " " * k, lambda k: '"a" ' * k,
        # unterminated strings full of escapes (the string scanners are regex-based: a regex that can match a backslash in
        # two ways backtracks exponentially exactly when the closing quote is missing)
        lambda k: '"' + "\\a" * k, lambda k: "'" + "\\'" * k, lambda k: 'k="' + '\\"' * k + " %} x", lambda k: '"%} ' + "\\\\" * k + "\\",
        lambda k: "_('" + "\\n" * k, lambda k: '"{{ a }}' + "\\a" * k,
    ]
    # nesting is also scaled far beyond the interpreter's recursion limit (300 -> 1200 levels)
    deep = [lambda k: "k=" + "[" * k + "1" + "]" * k, lambda k: "k=" + '{"a":' * k + "1" + "}" * k, lambda k: "[" * k + "]" * k, lambda k: "k=" + "[{\"a\":" * k + "1" + "}]" * k]
    for i in range(spec["n"]):
        if i >= spec["n"] - len(deep):
            f = deep[spec["n"] - 1 - i]
            base = 300
            mk = lambda m, f=f, base=base: f(base * m)  # noqa: E731
            name = f"deep{spec['n'] - 1 - i}@{base}"
        elif i < len(fams) * 2:
            f = fams[i % len(fams)]
            base = 20 if i < len(fams) else 75
            mk = lambda m, f=f, base=base: f(base * m)  # noqa: E731
            name = f"family{i % len(fams)}@{base}"
        else:
            _, s = valid_tag(rng, depth=3)
            unit = s + " "
            mk = lambda m, unit=unit: unit * (2 * m)  # noqa: E731
            name = "valid-tag-repeated"
        steps = []
        res = []
        for m in (1, 2, 4):
            s = mk(m)
            case = {"kind": "tag", "text": s if len(s) < 2000 else s[:2000], "family": name, "mult": m}
            r = env.parse_direct(rec, s, case)
            res.append(r[0])
            steps.append((len(s), env.steps.n))
            # also as a whole template
            env.compile_in(rec, s, 9 if i % 2 else 1, {"kind": "template", "source": CONTEXTS[9 if i % 2 else 1].format(s=s)[:2000], "family": name, "mult": m})
        rec.case(("scale", name, mk(1)), nontrivial=True)
        rec.observe("doubling-ratios-checked", 2)
        for a, b in ((0, 1), (1, 2)):
            (n1, s1), (n2, s2) = steps[a], steps[b]
            if res[a] != res[b]:
                continue  # different outcome classes are not comparable
            if s1 >= 200 and s2 > 4.5 * s1 + 200:
                rec.violation("super-quadratic-growth", {"kind": "tag", "text": mk(1)[:500], "family": name}, {"what": f"steps {s1} at n={n1} -> {s2} at n={n2} (ratio {s2 / s1:.2f})"})
        rec.maxi("max:steps_at_4x", steps[2][1])
    rec.exhaustive = False


def run_witnesses(spec, rec):
    """Stored witness of the listed finding: a source on which Django's own verbatim handling fails."""
    env = Env()
    for f in spec["findings"]:
        src = f["witness"]["source"]
        rec.case(("witness", f["id"]), nontrivial=False)
        # reported through the same monitor + defect model as generated inputs: silent once it no longer fails
        env.guarded(rec, lambda: env.Template(src), len(src), {"kind": "template", "source": src, "witness_of": f["id"]}, "Template()", src=src)


def replay(case, rec):
    env = Env()
    rec.case(("replay", 1))
    rec.case(("replay", 2))
    if case["kind"] == "template":
        src = case["source"]
        env.guarded(rec, lambda: env.Template(src), len(src), case, "Template()", src=src)
    elif case["kind"] == "roundtrip":
        s = case["text"]
        r = env.parse_direct(rec, s, case)
        if r[0] == "ok":
            ser = " ".join(a.serialize() for a in r[1][1])
            r2 = env.parse_direct(rec, ser, case)
            if r2[0] != "ok" or strip_pos(r2[1][1]) != strip_pos(r[1][1]):
                rec.violation("roundtrip-differs", case, {"what": ser})
        elif r[0] == "tse":
            rec.violation("valid-tag-rejected", case, {})
    else:
        env.parse_direct(rec, case["text"], case)
