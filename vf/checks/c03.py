"""C03 - variable scoping follows the configured context behaviour.

Reference-model monitor: E1 programs in the 'scope' flavour bind the colliding names x / y / z at
every kind of site (page context, component data, {% with %}, {% for %} - outside the component tag,
between tag and fill, inside component templates -, kwargs) and every bound value *names its
binding site* ("P.x", "Dc3.x", "W12.x", "L7.x#1"), so each printed "[x=...]" shows which binding was
selected.  The interpreter applies the statement's rules (isolated / only: data + built-ins, fills
lexically scoped; django: inner data over between-bindings over outer).  Each program is rendered
in both modes and with two page contexts (2-run non-interference comes out as reference equality on
both), and the caller's Context is snapshotted before/after every top-level render.

Listed findings are attributed by mechanism only (defect models in classify()); anything else is a
violation.
"""
import copy
import json
import random

from vf import e1run
from vf.gen import program as pg
from vf.gen import shrink as shrinker

PROP = "C03"
LEVEL = "exploration"
RULE = (
    "E1 programs ('scope' flavour): x/y/z bound by page context, component data, with/for (around component tags, between tag and "
    "fill, inside component templates), kwargs, slot data aliases; `only` on body-less tags; both context behaviours x 2 page contexts; "
    "distinct by program AST; non-trivial = at least one printed variable has >=2 candidate bindings (shadowing decided by the rule)"
)
ASSUMPTIONS = [
    "{% with %} between a component tag and its fill, read inside the fill in isolated mode: unspecified (docs and code disagree), not judged",
    "django mode: reads inside forwarded fills of names bound by intermediate components, and names bound around the slot tag in the inner template: unspecified, not judged",
    "{{ default }} under a {% with %} between tag and fill in isolated mode is not generated (see the first assumption)",
]

K1 = "C03-loop-layer-forwarded-into-isolated-component"
# (K2 `only` + fills and K3 {{ default }} content seeing the fill's scope were repaired in the repository: known_findings.json -> fixed)
K4 = "C03-fill-captured-layer-placement"


def parse_site(value):
    """'P.x' -> ('page','P'); 'Dc3.x' -> ('data','Dc3'); 'W12.x' -> ('with',12); 'L7.x#1' -> ('for',7); '' -> None"""
    if not value:
        return None
    head = value.split(".", 1)[0]
    if head == "P" or head == "Q":
        return ("page", "P")
    if head.startswith("D"):
        return ("data", head)
    if head.startswith("W") and head[1:].isdigit():
        return ("with", int(head[1:]))
    if head.startswith("L") and head[1:].isdigit():
        return ("for", int(head[1:]))
    return ("?", value)


def tokens(s):
    out, cur = [], ""
    for ch in s:
        cur += ch
        if ch == "]":
            out.append(cur)
            cur = ""
    if cur:
        out.append(cur)
    return out


def classify(prog, mode, page_ctx, ref, got, listed=(K1, K4)):
    """Defect models of the listed findings.  Returns a finding id or None."""
    if ref[0] != "ok" or got[0] != "ok":
        return None
    # K1: make_isolated_context_copy forwards the innermost for-loop layer into isolated component templates
    p2 = dict(prog, page_ctx=page_ctx)
    alt = e1run.reference(p2, mode, switches=("loop_frames_leak_into_isolated_template",))
    if alt[0] == "ok" and alt[1] == got[1]:
        return K1
    if K4 not in listed:
        return None
    k4 = classify_k4(mode, ref, got)
    if k4:
        return k4
    # both mechanisms at once: the forwarded loop layer (K1) is itself a layer captured for a fill (K4)
    if K1 in listed and alt[0] == "ok":
        return classify_k4(mode, alt, got)
    return None


def classify_k4(mode, ref, got):
    # K4: django mode - the layer captured for a fill (with/for between tag and fill, copies of enclosing
    # loops) is inserted at a position that mis-orders it against the other layers.  Token-level model:
    # outputs align, and every differing token is a variable read inside fill content where the expected
    # and the observed binding are both genuine candidates and exactly one of them is a captured frame.
    et, gt = tokens(ref[1]), tokens(got[1])
    if len(et) != len(gt):
        return None
    it = ref[2]
    by_pos = {}
    # var_tokens 'at' indexes the interpreter's out list; rebuild positions over the flat token list
    flat = []
    for i, chunk in enumerate(it_out_chunks(it, ref[1])):
        flat.append(chunk)
    var_positions = [i for i, t in enumerate(et) if t.startswith("[") and "=" in t and not t.startswith("[inj:") and "." not in t.split("=")[0]]
    if len(var_positions) != len(it.var_tokens):
        return None
    for pos, recd in zip(var_positions, it.var_tokens):
        by_pos[pos] = recd
    any_diff = False
    kinds = set()
    for i, (a, b) in enumerate(zip(et, gt)):
        if a == b:
            continue
        any_diff = True
        recd = by_pos.get(i)
        if recd is None:
            return None
        import html

        obs_val = b[1:-1].split("=", 1)[1]
        obs = parse_site(obs_val)
        exp = recd["sel"]
        # --- K4: placement of the layer captured for a fill (both modes; in django mode a component rendered
        #     inside fill content inherits the fill's context)
        k4 = False
        if recd["in_fill"] or recd["captured_sites"]:
            cands = {}
            for k, s_, cap in recd["cands"]:
                cands[(k, s_)] = cands.get((k, s_), False) or cap
            if obs is not None and obs in cands and (exp is None or exp in cands):
                oc = cands[obs]
                ec = cands[exp] if exp is not None else None
                if exp is None and oc:
                    # a captured frame shows where nothing is bound
                    k4 = True
                elif exp is not None and oc and not ec and (exp[0] == "data" or obs[0] == "for"):
                    # (a) the captured layer lands above the inner component's data; (e) the copy of an ENCLOSING loop
                    # (every forloop layer of the Context is copied into the captured layer) beats an outer binding
                    # that is nearer than that loop, e.g. {% for z %}{% with z=.. %}{% component %}{% fill %}{{ z }}
                    k4 = True
                elif exp is not None and ec and not oc and (recd.get("lexical") or tuple(exp) in {tuple(x) for x in recd.get("lexical_captured_sites", [])}):
                    # (c) lexical scoping (isolated / only): the captured layer is inserted below layers of the outer template
                    k4 = True
                # (b) both captured: the merged layer is built by dict.update in an order that lets the copy of an
                # ENCLOSING loop overwrite a same-named binding made between the tag and the fill, and in isolated
                # mode it is inserted below the layers of the loops it copies
                # (narrowed after seeded change C01f: a loop BETWEEN tag and fill is copied after the enclosing loops and wins
                # over them in django mode - there only a between-`with` is overwritten)
                elif exp is not None and oc and ec and obs[0] == "for" and obs != exp and (exp[0] != "for" or recd.get("lexical")):
                    k4 = True
            # the captured layer also lands below the alias layer of an ENCLOSING fill that is still being rendered: a
            # slot-data alias of that fill, named like the variable, shows through instead of the nearer captured binding
            if not k4 and exp is not None and any(exp == (k, s_) and cap for k, s_, cap in recd["cands"]):
                if recd["name"] in recd["fill_aliases"] and obs_val == html.escape(str(recd["fill_aliases"][recd["name"]])):
                    k4 = True
        # --- K1 (token level, for transitive forwarding the exact model does not reproduce): a loop variable of a
        #     loop that dynamically encloses the read shows up although it is not visible by the statement's rule
        k1 = False
        if obs is not None and obs[0] == "for" and str(obs[1]) in recd["dyn_loop_sites"] and obs != exp:
            if obs not in {(k, s_) for k, s_, _ in recd["cands"]}:
                k1 = True
        if k4:
            kinds.add(K4)
        elif k1:
            kinds.add(K1)
        else:
            return None
    if not any_diff:
        return None
    return K4 if K4 in kinds else K1


def it_out_chunks(it, text):
    return tokens(text)


def snapshot_ctx(ctx):
    return ([dict(d) for d in ctx.dicts], len(ctx.render_context.dicts))


def render(env, built, mode, page_ctx):
    comp = {"context_behavior": mode, "autodiscover": False}
    try:
        with env.override_settings(COMPONENTS=comp):
            ctx = env.Context(dict(page_ctx))
            before = snapshot_ctx(ctx)
            raw = env.Template(built.page_src).render(ctx)
            after = snapshot_ctx(ctx)
    except Exception as e:  # noqa: BLE001
        return ("exc", type(e).__name__, str(e)[:300]), None
    return ("ok", e1run.normalise(raw), raw), (before, after)


def compare(ref, got):
    if ref[0] == "ok":
        if got[0] == "ok" and got[1] == ref[1]:
            return None
        return ("wrong-binding-selected" if got[0] == "ok" else "unexpected-exception", f"expected {ref[1]!r} got {got[1]!r}" if got[0] == "ok" else f"{got[1]}: {got[2]}")
    if got[0] == "exc" and (got[1] == ref[1] or got[1] in getattr(ref[-1], "error_kinds", ())):
        return None
    return ("missing-or-wrong-error", f"expected {ref[1]}, got {got[:2]!r}")


def check_program(env, rec, prog, seedinfo, do_shrink=True):
    nontrivial = False
    ctx_a = dict(prog.get("page_ctx", {}))
    ctx_b = {k: (v.replace("P.", "Q.") if isinstance(v, str) else v) for k, v in ctx_a.items()}
    built = env.build(prog)
    try:
        for mode in ("django", "isolated"):
            for which, page_ctx in (("A", ctx_a), ("B", ctx_b)):
                p2 = dict(prog, page_ctx=page_ctx)
                ref = e1run.reference(p2, mode)
                if ref[0] == "unspec":
                    rec.count("unspecified_skipped")
                    return None
                got, snaps = render(env, built, mode, page_ctx)
                rec.observe("renders-compared")
                case = {"program": prog, "mode": mode, "ctx": which, "seed": seedinfo}
                if ref[0] == "ok":
                    it = ref[2]
                    for name, sel, cands, in_fill in it.reads:
                        rec.count(f"reads:{mode}:{'fill' if in_fill else 'template'}:{sel[0] if sel else 'unbound'}:{min(len(cands), 3)}cand")
                        if len(cands) >= 2:
                            nontrivial = True
                prob = compare(ref, got)
                if prob:
                    known = classify(prog, mode, page_ctx, ref, got, listed=tuple(rec.known_ids))
                    if known and rec.known_finding(known, case, {"what": prob[1][:300]}):
                        continue
                    if do_shrink:
                        klass = prob[0]
                        small = shrinker.shrink(prog, lambda p: outcome(env, p, mode, which) == klass, 250)
                        case["shrunk"] = small
                        b2 = pg.Built(small, "w")
                        detail = {"page": b2.page_src, "templates": {c: cls.template for c, cls in b2.classes.items()}, "data": {c: s.get("data") for c, s in small["classes"].items()}, "page_ctx": small.get("page_ctx")}
                        b2.dispose()
                    else:
                        detail = {}
                    rec.violation(prob[0], case, dict(detail, what=prob[1][:500]))
                    return nontrivial
                if snaps is not None:
                    rec.observe("context-snapshots-compared")
                    if snaps[0] != snaps[1]:
                        rec.violation("caller-context-changed", case, {"what": f"before {str(snaps[0])[:200]} after {str(snaps[1])[:200]}"})
                        return nontrivial
                # the same program with EVERY component tag (page and class templates) written through the dynamic
                # component: judged where the plain tags agreed with the reference
                if which == "A" and not prob and ref[0] == "ok":
                    env.n += 1
                    bd = pg.Built(prog, f"p{env.n}", dynamic_all=True)
                    try:
                        gotd, _ = render(env, bd, mode, page_ctx)
                    finally:
                        bd.dispose()
                    rec.observe("dynamic-route-renders")
                    probd = compare(ref, gotd)
                    if probd:
                        known = classify(prog, mode, page_ctx, ref, gotd, listed=tuple(rec.known_ids))
                        if known and rec.known_finding(known, dict(case, variant="dynamic"), {"what": probd[1][:300]}):
                            continue
                        rec.violation("dynamic-route-" + probd[0], dict(case, variant="dynamic"), {"what": probd[1][:500]})
                        return nontrivial
    finally:
        built.dispose()
    return nontrivial


def outcome(env, prog, mode, which):
    ctx_a = dict(prog.get("page_ctx", {}))
    page_ctx = ctx_a if which == "A" else {k: (v.replace("P.", "Q.") if isinstance(v, str) else v) for k, v in ctx_a.items()}
    ref = e1run.reference(dict(prog, page_ctx=page_ctx), mode)
    if ref[0] == "unspec":
        return "unspec"
    built = env.build(prog)
    try:
        got, _ = render(env, built, mode, page_ctx)
    finally:
        built.dispose()
    prob = compare(ref, got)
    if prob and classify(prog, mode, page_ctx, ref, got):
        return "known"
    return prob[0] if prob else None


def add_between_collision(prog, rng):
    """Appends the plainest form of 'bound between the tag and the fill': a page-level component whose fill sits in a
    {% for %} that re-binds a name of the page context, filling a slot of a class that returns little or no data."""
    import json as _json

    cands = []
    for cname, spec in prog["classes"].items():
        names = sorted(set(__import__("re").findall(r'\["slot", \["lit", "(\w+)"\]', _json.dumps(spec["template"]))))
        if names:
            cands.append((cname, names))
    if not cands:
        return
    cname, names = rng.choice(cands)
    if rng.random() < 0.6:
        # no data of its own (get_context_data() returns {}); the loop lists used by its template stay
        prog["classes"][cname]["data"] = {k: v for k, v in prog["classes"][cname]["data"].items() if k.startswith("L")}
    var = rng.choice(pg.VAR_NAMES)
    prog["page_ctx"].setdefault(var, f"P.{var}")
    site = 9000 + rng.randrange(900)
    prog["page_ctx"][f"L{site}"] = [f"L{site}.{var}#0", f"L{site}.{var}#1"][: rng.choice([1, 2])]
    fill = ["fill", ["lit", rng.choice(names)], [["var", var]], None, None]
    node = ["comp", cname, {}, ["fills", [["for", var, ["var", f"L{site}"], site, [fill]]]]]
    if rng.random() < 0.5:
        # ... and the component tag itself sits in a loop over the SAME name (or another one): inside the fill the loop
        # between tag and fill is the nearer binding
        var2 = var if rng.random() < 0.7 else rng.choice(pg.VAR_NAMES)
        site2 = site + 1000
        prog["page_ctx"][f"L{site2}"] = [f"L{site2}.{var2}#0", f"L{site2}.{var2}#1"][: rng.choice([1, 2])]
        if var2 != var:
            fill[2].append(["var", var2])
        node = ["for", var2, ["var", f"L{site2}"], site2, [node]]
    prog["page"].append(node)


def gen(rng):
    for _ in range(12):
        prng = random.Random(rng.random())
        prog = pg.ProgGen(prng, "scope").program()
        if prng.random() < 0.15:
            add_between_collision(prog, prng)
        if all(e1run.reference(prog, m)[0] != "unspec" for m in ("django", "isolated")):
            return prog
    return None


# ---------------------------------------------------------------------------------------
# Loop state: {% for %} binds `forloop` (counter, parentloop chain) like any other variable of its layer.  Components are
# rendered deferred, from a snapshot of the Context taken at the tag, while Django keeps mutating the live forloop dicts:
# what a component template / a fill prints for forloop.counter0 and the parentloop chain must be the state AT THE TAG.
CHAIN = ".".join("{{ forloop." + "parentloop." * k + "counter0 }}" for k in range(5))


def gen_loopstate(rng):
    return {
        "kind": "loopstate",
        "outer": [rng.randint(1, 3) for _ in range(rng.randint(1, 3))],  # loops around the component tag (item counts)
        "between": [rng.randint(1, 3) for _ in range(rng.choice([0, 0, 1, 2]))],  # loops between tag and fill
        "host": rng.choice(["page", "component", "component-in-component"]),
        "pad": [rng.choice(["", "with", "if"]) for _ in range(3)],
        "mode": rng.choice(["django", "isolated"]),
    }


def _chain(idx):
    """idx: loop indices innermost first"""
    return ".".join([str(i) for i in idx] + [""] * 5)[: 0] or ".".join(([str(i) for i in idx] + [""] * 5)[:5])


def run_loopstate(env, rec, case):
    env.n += 1
    n = env.n
    mode = case["mode"]
    inner_name, host_name, host2_name = f"ls{n}_inner", f"ls{n}_host", f"ls{n}_host2"
    explicit = bool(case["between"])
    # the inner component prints the chain itself only in django mode (in isolated mode the forwarded loop layer is the
    # listed finding K1); its slot default is rendered in the component's own context, so the same applies
    inner_t = ("I(" + CHAIN + ")" if mode == "django" else "I()") + '{% slot "s" default %}D{% endslot %}'
    if explicit:
        body = ""
        for d, cnt in enumerate(case["between"]):
            body += "{% for b" + str(d) + ' in "' + "xyz"[:cnt] + '" %}'
        # (one fill per iteration needs distinct names: only the LAST iteration's fill survives by name, so name it by the
        # loop variables)
        body += "{% fill name=" + ("b0" if len(case["between"]) == 1 else "b1") + " %}F(" + CHAIN + "){% endfill %}"
        body += "{% endfor %}" * len(case["between"])
        slots = "".join('{% slot "' + ch + '" %}{% endslot %}' for ch in "xyz")
        inner_t = ("I(" + CHAIN + ")" if mode == "django" else "I()") + slots
        tag = '{% component "' + inner_name + '" %}' + body + "{% endcomponent %}"
    else:
        tag = '{% component "' + inner_name + '" %}F(' + CHAIN + "){% endcomponent %}"
    src = tag
    for d, cnt in reversed(list(enumerate(case["outer"]))):
        pad = case["pad"][d]
        if pad == "with":
            src = '{% with w="1" %}' + src + "{% endwith %}"
        elif pad == "if":
            src = "{% if True %}" + src + "{% endif %}"
        src = "{% for a" + str(d) + ' in "' + "pqr"[:cnt] + '" %}' + src + "|{% endfor %}"
    Inner = type(f"Ls{n}Inner", (env.Component,), {"template": inner_t})
    env.registry.register(inner_name, Inner)
    names = [inner_name]
    page = src
    if case["host"] != "page":
        Host = type(f"Ls{n}Host", (env.Component,), {"template": "H[" + src + "]"})
        env.registry.register(host_name, Host)
        names.append(host_name)
        page = '{% component "' + host_name + '" / %}'
        if case["host"] == "component-in-component":
            Host2 = type(f"Ls{n}Host2", (env.Component,), {"template": "G[" + page + "]"})
            env.registry.register(host2_name, Host2)
            names.append(host2_name)
            page = '{% component "' + host2_name + '" / %}'
    # expected
    import itertools as _it

    k4v = bool(case.get("_k4_variant"))
    out = []
    for outer_idx in _it.product(*[range(c) for c in case["outer"]]):
        at_tag = list(reversed(outer_idx))  # innermost first
        piece = "I(" + _chain(at_tag) + ")" if mode == "django" else "I()"
        if explicit:
            # fills are keyed by name: for each name the LAST iteration that produced it wins; slots x,y,z in order
            last = {}
            for b_idx in _it.product(*[range(c) for c in case["between"]]):
                name = "xyz"[b_idx[0] if len(case["between"]) == 1 else b_idx[1]]
                last[name] = b_idx
            dup = len(case["between"]) == 2 and case["between"][0] > 1
            for ch in "xyz":
                if ch in last:
                    # (k4v: defect model of the listed finding - the captured layer sits BELOW the live layers of the
                    # enclosing loops, so `forloop` is the enclosing loop's)
                    piece += "F(" + _chain(at_tag if k4v else list(reversed(last[ch])) + at_tag) + ")"
            if dup:
                piece = None  # the same fill name produced twice: TemplateSyntaxError expected, not judged here
        else:
            piece += "F(" + _chain(at_tag) + ")"
        out.append(piece)
    try:
        if any(p is None for p in out):
            rec.count("loopstate_duplicate_fill_names_skipped")
            return False
        # loops close innermost first: "|" after each iteration of each loop
        def close(depth, idxs):
            return ""

        # rebuild expected text by simulating the nesting
        def emit(d, prefix):
            if d == len(case["outer"]):
                return out[emit.k]
            txt = ""
            for i in range(case["outer"][d]):
                if d == len(case["outer"]) - 1:
                    txt += out[emit.k] + "|"
                    emit.k += 1
                else:
                    txt += emit(d + 1, prefix + [i]) + "|"
            return txt

        emit.k = 0
        expected = emit(0, [])
        if case["host"] != "page":
            expected = "H[" + expected + "]"
        if case["host"] == "component-in-component":
            expected = "G[" + expected + "]"
        with env.override_settings(COMPONENTS={"context_behavior": mode, "autodiscover": False}):
            try:
                raw = env.Template(page).render(env.Context({}))
            except Exception as e:  # noqa: BLE001
                rec.violation("loopstate-render-raised-" + type(e).__name__, case, {"what": str(e)[:300], "page": page, "host": src})
                return True
        got = e1run.normalise(raw)
        rec.observe("renders-compared")
        rec.count("loopstate_renders")
        if case.get("_k4_variant"):
            return got == expected
        if got != expected:
            detail = {"what": f"expected {expected!r} got {got!r}", "template": src, "inner": inner_t}
            if mode == "isolated" and explicit and case["host"] != "page":
                # exact defect model of C03-fill-captured-layer-placement for this family
                env2_case = dict(case, _k4_variant=True)
                if run_loopstate(env, rec, env2_case) and rec.known_finding(K4, case, {"what": detail["what"][:300]}):
                    return True
            rec.violation("loop-state-not-as-at-the-tag", case, detail)
        return True
    finally:
        for nm in names:
            try:
                env.registry.unregister(nm)
            except Exception:  # noqa: BLE001
                pass


# ---------------------------------------------------------------------------------------
# In-place rebinding: tags that assign into the current top layer ({% firstof .. as v %}, {% now .. as v %}, {% url .. as v %},
# {% cycle .. as v %}) AFTER a component tag.  The component is rendered later, from a snapshot taken at the tag: what its
# template (django mode) and its fill content (both modes) print for v must be the value v had AT THE TAG.
def gen_rebind(rng):
    def body(depth, budget):
        out = []
        for _ in range(rng.randint(1, 4)):
            if budget[0] <= 0:
                break
            budget[0] -= 1
            r = rng.random()
            if r < 0.30:
                out.append(["assign", f"a{budget[0]}"])
            elif r < 0.60:
                out.append(["tag"])
            elif r < 0.70:
                out.append(["show"])
            elif depth < 3:
                k = rng.choice(["with", "if", "for"])
                out.append([k, body(depth + 1, budget)] if k != "for" else ["for", rng.randint(1, 2), body(depth + 1, budget)])
        return out

    while True:
        ast = body(0, [rng.randint(4, 10)])
        flat = json.dumps(ast)
        if '"tag"' in flat and '"assign"' in flat:
            return {"kind": "rebind", "ast": ast, "host": rng.choice(["page", "component", "component", "component-in-component"]), "mode": rng.choice(["django", "isolated"]), "preset": rng.random() < 0.4}


def run_rebind(env, rec, case):
    env.n += 1
    n = env.n
    mode = case["mode"]
    inner_name, host_name, host2_name = f"rb{n}_inner", f"rb{n}_host", f"rb{n}_host2"
    tag_src = '{% component "' + inner_name + '" %}F(v={{ v }}){% endcomponent %}'
    cnt = [0]

    def ser(nodes):
        t = ""
        for nd in nodes:
            k = nd[0]
            if k == "assign":
                t += '{% firstof "' + nd[1] + '" as v %}'
            elif k == "tag":
                t += tag_src
            elif k == "show":
                t += "[v={{ v }}]"
            elif k == "with":
                cnt[0] += 1
                t += '{% with w' + str(cnt[0]) + '="1" %}' + ser(nd[1]) + "{% endwith %}"
            elif k == "if":
                t += "{% if True %}" + ser(nd[1]) + "{% endif %}"
            else:
                cnt[0] += 1
                t += "{% for i" + str(cnt[0]) + ' in "' + "pq"[: nd[1]] + '" %}' + ser(nd[2]) + "{% endfor %}"
        return t

    def ev(nodes, layers, out):
        for nd in nodes:
            k = nd[0]
            if k == "assign":
                layers[-1]["v"] = nd[1]
            elif k in ("tag", "show"):
                val = next((ly["v"] for ly in reversed(layers) if "v" in ly), "")
                out.append(f"[v={val}]" if k == "show" else (f"I(v={val})" if mode == "django" else "I()") + f"F(v={val})")
            elif k == "with":
                ev(nd[1], layers + [{}], out)
            elif k == "if":
                ev(nd[1], layers, out)
            else:
                ly = {}  # ForNode pushes ONE layer for the whole loop
                for _ in range(nd[1]):
                    ev(nd[2], layers + [ly], out)

    src = ser(case["ast"])
    inner_t = ("I(v={{ v }})" if mode == "django" else "I()") + '{% slot "s" default %}D{% endslot %}'
    names = []
    try:
        Inner = type(f"Rb{n}Inner", (env.Component,), {"template": inner_t})
        env.registry.register(inner_name, Inner)
        names.append(inner_name)
        page = src
        page_ctx = {"v": "P.v"} if case["preset"] else {}
        layers = [dict(page_ctx)]
        if case["host"] != "page":
            # the host component gets v as data (preset) - in isolated mode the page's v is not visible in the host anyway
            data = {"v": "H.v"} if case["preset"] else {}
            Host = type(f"Rb{n}Host", (env.Component,), {"template": "H[" + src + "]", "get_context_data": (lambda d: (lambda self, **kw: dict(d)))(data)})
            env.registry.register(host_name, Host)
            names.append(host_name)
            page = '{% component "' + host_name + '" / %}'
            layers = ([dict(page_ctx)] if mode == "django" else []) + [dict(data)]
            if case["host"] == "component-in-component":
                Host2 = type(f"Rb{n}Host2", (env.Component,), {"template": "G[" + page + "]"})
                env.registry.register(host2_name, Host2)
                names.append(host2_name)
                page = '{% component "' + host2_name + '" / %}'
        out = []
        ev(case["ast"], layers + [{}] if case["host"] != "page" else layers, out)
        expected = "".join(out)
        if case["host"] != "page":
            expected = "H[" + expected + "]"
        if case["host"] == "component-in-component":
            expected = "G[" + expected + "]"
        with env.override_settings(COMPONENTS={"context_behavior": mode, "autodiscover": False}):
            try:
                raw = env.Template(page).render(env.Context(dict(page_ctx)))
            except Exception as e:  # noqa: BLE001
                rec.violation("rebind-render-raised-" + type(e).__name__, case, {"what": str(e)[:300], "template": src})
                return True
        got = e1run.normalise(raw)
        rec.observe("renders-compared")
        rec.count("rebind_renders")
        if got != expected:
            rec.violation("value-rebound-after-the-tag-is-seen-by-the-component", case, {"what": f"expected {expected!r} got {got!r}", "template": src, "inner": inner_t})
        return True
    finally:
        for nm in names:
            try:
                env.registry.unregister(nm)
            except Exception:  # noqa: BLE001
                pass


def plan(tier, seed):
    n = 12000 if tier == "quick" else 400000
    nshard = 15 if tier == "quick" else 32
    shards = [{"name": f"gen_{i:02d}", "n": n // nshard, "idx": i} for i in range(nshard)]
    shards.append({"name": "loopstate", "kind": "loopstate", "n": 1500 if tier == "quick" else 40000, "idx": 99})
    shards.append({"name": "rebind", "kind": "rebind", "n": 1500 if tier == "quick" else 40000, "idx": 98})
    return shards


def run_shard(spec, rec):
    env = e1run.E1Env()
    if spec.get("kind") == "loopstate":
        rec.require("renders-compared")
        rng = random.Random(f"{spec['seed']}-c03-loopstate")
        for i in range(spec["n"]):
            case = gen_loopstate(rng)
            nt = run_loopstate(env, rec, case)
            rec.case(("loopstate", json.dumps(case, sort_keys=True)), nontrivial=bool(nt) and len(case["outer"]) >= 2)
        return
    if spec.get("kind") == "rebind":
        rec.require("renders-compared")
        rng = random.Random(f"{spec['seed']}-c03-rebind")
        for i in range(spec["n"]):
            case = gen_rebind(rng)
            nt = run_rebind(env, rec, case)
            rec.case(("rebind", json.dumps(case, sort_keys=True)), nontrivial=bool(nt) and case["host"] != "page")
        return
    rec.require("renders-compared", "context-snapshots-compared")
    rng = random.Random(f"{spec['seed']}-c03-{spec['idx']}")
    for i in range(spec["n"]):
        prog = gen(rng)
        if prog is None:
            rec.count("regeneration_gave_up")
            continue
        nt = check_program(env, rec, prog, [spec["seed"], spec["idx"], i])
        if nt is None:
            continue
        rec.case(prog, nontrivial=bool(nt))
        if nt and rec.want_sample() and i % 41 == 0:
            b = pg.Built(prog, "sample")
            rec.sample({"page_ctx": prog["page_ctx"], "page": b.page_src[:400], "templates": {c: cls.template[:300] for c, cls in b.classes.items()}, "data": {c: {k: v for k, v in s["data"].items() if not k.startswith("L")} for c, s in prog["classes"].items()}})
            b.dispose()


def run_witnesses(spec, rec):
    """Each listed finding's stored witness: (program, mode) -> documented wrong observable."""
    env = e1run.E1Env()
    for f in spec["findings"]:
        w = f["witness"]
        prog, mode = w["program"], w["mode"]
        rec.case(("witness", f["id"]), nontrivial=False)
        ref = e1run.reference(prog, mode)
        built = env.build(prog)
        try:
            got, _ = render(env, built, mode, prog.get("page_ctx", {}))
        finally:
            built.dispose()
        rec.observe("renders-compared")
        rec.observe("context-snapshots-compared")
        case = {"program": prog, "mode": mode, "ctx": "A", "witness_of": f["id"]}
        if ref[0] == "ok" and got[0] == "ok" and got[1] == ref[1]:
            continue  # repaired: no KNOWN-FINDING line
        if got[0] == "ok" and got[1] == w["observed"]:
            if not rec.known_finding(f["id"], case, {"what": f"expected {ref[1]!r} observed {got[1]!r}"}):
                rec.violation("wrong-binding-selected", case, {"what": f"expected {ref[1]!r} observed {got[1]!r}"})
        else:
            rec.violation("wrong-binding-selected", case, {"what": f"witness of {f['id']}: expected {ref[1]!r}, documented defect output {w['observed']!r}, observed {got[:2]!r}"})


def replay(case, rec):
    env = e1run.E1Env()
    rec.case(("replay", 1))
    rec.case(("replay", 2))
    rec.observe("context-snapshots-compared")
    if case.get("kind") == "loopstate":
        run_loopstate(env, rec, case)
        return
    if case.get("kind") == "rebind":
        run_rebind(env, rec, case)
        return
    check_program(env, rec, case["program"], case.get("seed"), do_shrink=False)
