"""C09 - the template lexer partitions the source exactly, with right positions and lines.

Monitors on every token stream the real ``parse_template`` returns:
  I1 spans are contiguous and cover the text;   I2 contents == span minus delimiters and outer
  whitespace (TEXT: the span);   I3 lineno == 1 + newlines before the span start;
  D  identical to stock ``DebugLexer`` when no block tag of the stock stream contains a quote;
  R  equal to the reference lexer (vf/model/lexer.py) that implements the statement's only
     permitted difference (a ``%}`` inside a quoted string stays inside the tag).
A sample is also compiled through ``Template(source)`` with a recording ``Parser`` to observe
that the stream the patched Template compiles from is the same one, and the line reported in
``TemplateSyntaxError.template_debug`` is checked for a deliberately broken final tag.
"""
import random

from vf.model import lexer as ref

PROP = "C09"
LEVEL = "exploration"
RULE = (
    "sources are concatenations of 1-14 typed pieces (text runs over a delimiter-heavy alphabet incl. newlines and "
    "non-ASCII, {{ }}, {# #}, {% %} with 0-3 quoted strings of either kind holding %} / }} / newlines / escapes, "
    "multi-line tags, verbatim blocks incl. named, unterminated constructs) plus raw random strings over the delimiter "
    "alphabet; distinct by source text; non-trivial = the stock stream has >=1 block tag containing a quote or a verbatim block"
)
ASSUMPTIONS = [
    "multiline tags enabled (library default): tag_re is compiled with DOTALL for both the patched and the stock lexer",
    "quoted verbatim names containing %} are not generated",
]


ALPHA = ["{", "}", "%", "#", "'", '"', "\\", "\n", " ", "a", "b", "é", "\t", "{%", "%}", "{{", "}}", "{#", "#}"]
WORDS = ["x", "if", "endif", "component", "slot", "a.b", "c|d:1", "k=v", "/", "verbatim", "endverbatim", "load", "é"]


def gen_string_lit(rng):
    q = rng.choice("'\"")
    other = '"' if q == "'" else "'"
    parts = []
    for _ in range(rng.randint(0, 4)):
        parts.append(rng.choice(["a", " ", "%}", "}}", "{{ v }}", "{% t %}", "\n", "\\" + q, "\\\\", other, "#}", "é", "%", "}", "x y"]))
    return q + "".join(parts) + q


def gen_block(rng, quotes=None):
    nq = rng.choice([0, 0, 1, 1, 2, 3]) if quotes is None else quotes
    ws = lambda: rng.choice([" ", " ", "  ", "\n", "\n  ", "\t", ""])  # noqa: E731
    items = [rng.choice(WORDS) for _ in range(rng.randint(1, 3))]
    for _ in range(nq):
        lit = gen_string_lit(rng)
        if rng.random() < 0.5:
            lit = rng.choice(["k=", "a:b=", ""]) + lit
        items.insert(rng.randint(1, len(items)), lit)
    body = ws()
    for it in items:
        body += it + rng.choice([" ", " ", "\n", "  "])
    body = body.rstrip(" \n") + ws()
    if rng.random() < 0.05:
        body = ""
    return "{%" + body + "%}"


def gen_piece(rng):
    r = rng.random()
    if r < 0.25:
        return "".join(rng.choice(ALPHA[:13]) for _ in range(rng.randint(1, 8)))
    if r < 0.35:
        return "{{" + rng.choice([" v ", "v", " a|b:'%}' ", "\n v\n", " '}' ", ""]) + "}}"
    if r < 0.42:
        return "{#" + rng.choice([" c ", "", " {% x %} ", " ' ", "\n"]) + "#}"
    if r < 0.80:
        return gen_block(rng)
    if r < 0.90:
        name = rng.choice(["", "", " blk", " n1"])
        inner = "".join(gen_piece(rng) if rng.random() < 0.6 else rng.choice(["{{ x }}", "{% if %}", "t", "\n"]) for _ in range(rng.randint(0, 3)))
        if "verbatim" in inner:
            inner = "{{ y }}"
        return "{% verbatim" + name + " %}" + inner + "{% endverbatim" + name + " %}"
    if r < 0.92:
        q = rng.choice("'\"")
        return "{% verbatim " + q + "q" + q + " %}" + rng.choice(["{{ x }}", "{% a %}", "t"]) + "{% endverbatim " + q + "q" + q + " %}"
    if r < 0.96:
        return rng.choice(["{% foo", "{{ x", "{# c", "{% a 'unterminated %}", '{% a "x %}', "{%", "%}", "{% a ' %} ' b"])
    return "".join(rng.choice(ALPHA) for _ in range(rng.randint(1, 12)))


def gen_source(rng):
    if rng.random() < 0.15:
        return "".join(rng.choice(ALPHA) for _ in range(rng.randint(0, 30)))
    return "".join(gen_piece(rng) for _ in range(rng.randint(1, 14)))


# ---------------------------------------------------------------------------------------
TT = None


def tokens_of(toks):
    return [(t.token_type.name, t.contents, tuple(t.position), t.lineno) for t in toks]


def invariants(text, stream):
    """I1-I3 on a stream of (type, contents, (a,b), lineno).  Returns None or description."""
    pos = 0
    for idx, (typ, contents, (a, b), ln) in enumerate(stream):
        if a != pos:
            return f"I1 token {idx} starts at {a}, previous ended at {pos}"
        if b <= a:
            return f"I1 token {idx} has empty/negative span {(a, b)}"
        span = text[a:b]
        if typ == "TEXT":
            if contents != span:
                return f"I2 TEXT token {idx} contents {contents!r} != span {span!r}"
        else:
            if contents != span[2:-2].strip():
                return f"I2 {typ} token {idx} contents {contents!r} != span without delimiters {span[2:-2].strip()!r}"
            opener = {"BLOCK": "{%", "VAR": "{{", "COMMENT": "{#"}[typ]
            closer = {"BLOCK": "%}", "VAR": "}}", "COMMENT": "#}"}[typ]
            if not (span.startswith(opener) and span.endswith(closer)):
                return f"I2 {typ} token {idx} span {span!r} lacks its delimiters"
        want_ln = 1 + text.count("\n", 0, a)
        if ln != want_ln:
            return f"I3 token {idx} ({typ} {contents[:20]!r}) lineno {ln}, expected {want_ln}"
        pos = b
    if pos != len(text):
        return f"I1 stream ends at {pos}, text length {len(text)}"
    return None


def first_diff(a, b):
    for i, (x, y) in enumerate(zip(a, b)):
        if x != y:
            return f"token {i}: got {x!r} expected {y!r}"
    if len(a) != len(b):
        return f"length {len(a)} vs expected {len(b)}"
    return None


class Env:
    def __init__(self):
        from vf import boot

        boot.boot()
        from django.template.base import DebugLexer
        from django.template.exceptions import TemplateSyntaxError

        from django_components.util.template_parser import parse_template

        self.DebugLexer = DebugLexer
        self.TSE = TemplateSyntaxError
        self.parse_template = parse_template


def check_source(env, rec, text, case=None):
    case = case or {"source": text}
    stock = tokens_of(env.DebugLexer(text).tokenize())
    stock_quoted = any(t[0] == "BLOCK" and ("'" in t[1] or '"' in t[1]) for t in stock)
    has_verbatim = any(t[0] == "BLOCK" and t[1][:8] == "verbatim" for t in stock)
    try:
        expected = ref.lex(text)
        exp_err = None
    except ref.Unterminated as e:
        expected, exp_err = None, str(e)
    try:
        got = tokens_of(env.parse_template(text))
        got_err = None
    except env.TSE as e:
        got, got_err = None, str(e)
    except Exception as e:  # noqa: BLE001
        rec.violation("lexer-raised-" + type(e).__name__, case, {"what": repr(e)})
        return stock_quoted or has_verbatim
    rec.observe("streams-checked")
    nt = stock_quoted or has_verbatim
    if got is None:
        rec.count("impl_rejected")
        if exp_err is None:
            rec.violation("rejects-balanced-source", case, {"what": f"parse_template raised {got_err!r} but every quoted string in block tags is terminated"})
        return nt
    inv = invariants(text, got)
    if inv:
        rec.violation("invariant", case, {"what": inv})
        return nt
    rec.count("tokens_checked", len(got))
    if expected is None:
        # the statement does not say what to do with unterminated strings; a stream that
        # satisfies the partition invariants is accepted (counted, not judged further)
        rec.count("lenient_unterminated")
        return nt
    if not stock_quoted:
        rec.observe("stock-differential")
        d = first_diff(got, stock)
        if d:
            rec.violation("differs-from-stock-without-quotes", case, {"what": d})
            return nt
    d = first_diff(got, expected)
    if d:
        rec.violation("differs-from-reference", case, {"what": d})
    else:
        if stock_quoted:
            rec.count("quoted_streams_equal_reference")
        if got != stock:
            rec.count("streams_differing_from_stock")
    return nt


def plan(tier, seed):
    n = 200000 if tier == "quick" else 12_000_000
    nshard = 15 if tier == "quick" else 32
    shards = [{"name": f"gen_{i:02d}", "kind": "gen", "n": n // nshard, "idx": i} for i in range(nshard)]
    shards.append({"name": "pipeline", "kind": "pipeline", "n": 1500 if tier == "quick" else 30000})
    return shards


def run_shard(spec, rec):
    env = Env()
    rec.require("streams-checked", "stock-differential")
    if spec["kind"] == "gen":
        rng = random.Random(f"{spec['seed']}-c09-{spec['idx']}")
        for i in range(spec["n"]):
            text = gen_source(rng)
            nt = check_source(env, rec, text)
            rec.case(text, nontrivial=nt)
            if nt and rec.want_sample() and i % 211 == 0:
                rec.sample({"source": text})
    else:
        shard_pipeline(env, spec, rec)


def shard_pipeline(env, spec, rec):
    """Observe the stream at the place the patched Template hands it to the Parser, and the
    debug line of a deliberately broken last tag."""
    from django.template import Engine, Template
    from django.template.base import Parser

    import django_components.util.django_monkeypatch as mp

    captured = []

    class RecordingParser(Parser):
        def __init__(self, tokens, *a, **k):
            captured.append(tokens_of(tokens))
            super().__init__(tokens, *a, **k)

    rec.require("parser-hook", "debug-line-checks")
    orig = getattr(mp, "Parser", None)
    mp.Parser = RecordingParser
    rng = random.Random(f"{spec['seed']}-c09-pipe")
    dbg = Engine(debug=True, builtins=["django_components.templatetags.component_tags"])
    try:
        for i in range(spec["n"]):
            # only benign tags so that compilation reaches the end
            pieces = []
            for _ in range(rng.randint(1, 8)):
                r = rng.random()
                if r < 0.3:
                    pieces.append(rng.choice(["t", "\n", " x\n\n", "é\n", "{", "}"]))
                elif r < 0.45:
                    pieces.append("{{ v }}")
                elif r < 0.55:
                    pieces.append("{# c #}")
                else:
                    lits = " ".join(gen_string_lit(rng) for _ in range(rng.randint(0, 2)))
                    pieces.append("{% firstof" + rng.choice([" ", "\n", "\n  "]) + "v " + lits + rng.choice([" ", "\n", ""]) + "%}")
            body = "".join(pieces)
            text = body + "{% c09nosuchtag 'x' %}"
            case = {"kind": "pipeline", "source": text}
            rec.case(("pipe", text), nontrivial=True)
            captured.clear()
            try:
                Template(text, engine=dbg)
                rec.violation("broken-tag-accepted", case, {})
                continue
            except env.TSE as e:
                info = getattr(e, "template_debug", None)
                if "c09nosuchtag" not in str(e):
                    # some other construct failed first (unterminated literal): not the probe
                    rec.count("pipeline_other_error")
                    continue
            if captured:
                rec.observe("parser-hook")
                try:
                    direct = tokens_of(env.parse_template(text))
                except env.TSE:
                    direct = None
                if direct != captured[0]:
                    rec.violation("parser-received-different-stream", case, {"what": first_diff(captured[0], direct or [])})
                inv = invariants(text, captured[0])
                if inv:
                    rec.violation("invariant", case, {"what": inv})
            if info is not None:
                rec.observe("debug-line-checks")
                want = 1 + body.count("\n")
                if info.get("line") != want:
                    rec.violation("debug-line", case, {"what": f"template_debug line {info.get('line')} expected {want}"})
    finally:
        if orig is not None:
            mp.Parser = orig


def run_witnesses(spec, rec):
    env = Env()
    for f in spec["findings"]:
        text = f["witness"]["source"]
        rec.case(("witness", text), nontrivial=False)
        check_source(env, rec, text)


def replay(case, rec):
    env = Env()
    rec.case(("replay", 1))
    rec.case(("replay", 2))
    if case.get("kind") == "pipeline":
        rec.note("pipeline cases are replayed through the direct path")
    check_source(env, rec, case["source"], case)
