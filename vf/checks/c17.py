"""C17 - the static-files finder exposes exactly the allowed, non-forbidden files.

Reference predicate on the path relative to the component directory:
    exposed(f)  <=>  (f ends with an allowed suffix  or  an allowed regex matches)
                     and not (f ends with a forbidden suffix or a forbidden regex matches)
Monitors: for every generated tree x configuration, ``list()`` must yield exactly the exposed
files, ``find(rel)`` must return the file exactly for exposed files, find and list must agree with
each other on *every* file (also where the reference is ambiguous), traversal / absolute / prefix
lookups must return nothing or raise SuspiciousFileOperation and never a path outside the
component directories, and with default settings no Python / template file is exposed.
"""
import os
import random
import re
import shutil
import tempfile

PROP = "C17"
LEVEL = "exploration"
RULE = (
    "temp trees of 6-24 files (nested dirs, multi-dot names, upper-case / look-alike extensions, regex metacharacters) x allowed / "
    "forbidden lists drawn from dotted suffixes (incl. multi-dot and metacharacters), compiled regexes (suffix, infix, anchored, "
    "one matching only the absolute root path), empty lists, defaults, deprecated setting name; every file looked up through find() "
    "and list(), plus traversal lookups; distinct by (tree, configuration); non-trivial = at least one exposed and one hidden file"
)
ASSUMPTIONS = [
    "a regex is meant to be matched against the path relative to the component directory; where that and the bare file name disagree the reference is skipped and only find/list agreement is required",
    "suffix matching is case-sensitive (as in the implementation and the documented examples)",
]

FILES = [
    "a.js", "b.css", "c.min.js", "x.minZjs", "d.JS", "e.py", "f.pyc", "g.html", "h.js.py", "i.py.js", "readme", "j.c++", "k.cxx", "kc", "a+b.js", "m(1).css",
    "n[0].js", "o$.js", "p.j", "q.jsx", ".hidden.js", "r..js", "s.tar.gz", "t.gz", "u.js~", "v.css.map", "w.svg", "a.x", "z.django", "y.tpl", "t1.css", "é.js",
    "sXtarYgz", "v.cssxmap", "b.cs", "noext_js", "x.py.bak", "conf.pyc.js",
]
DIRS = ["", "", "sub", "sub/deep", "with.dot", "d.js", "_priv", "a", "py"]
SUFFIXES = [".js", ".css", ".min.js", ".c++", ".tar.gz", ".css.map", ".j", ".py", ".html", ".svg", ".x", ".gz", ".(1).css", ".[0].js", ".js~", ".JS", ".cs"]
REGEXES = [r"\.svg$", r"read", r"^a", r"\d", r"rootmark", r"\.min\.", r"(?i)\.js$", r"^sub/", r"/deep/", r"\.py", r"^[^/]+$"]


class Env:
    def __init__(self):
        from vf import boot

        boot.boot()
        from django.core.exceptions import SuspiciousFileOperation
        from django.test import override_settings

        from django_components.finders import ComponentsFileSystemFinder

        self.SFO = SuspiciousFileOperation
        self.override_settings = override_settings
        self.Finder = ComponentsFileSystemFinder
        self.tmp = tempfile.mkdtemp(prefix="vf-c17-")
        self.n = 0

    def cleanup(self):
        shutil.rmtree(self.tmp, ignore_errors=True)


def gen_tree(rng):
    files = set()
    for _ in range(rng.randint(6, 24)):
        d = rng.choice(DIRS)
        f = rng.choice(FILES)
        files.add((d + "/" + f) if d else f)
    # a file and a directory cannot share a path
    dirs = {os.path.dirname(p) for p in files}
    alld = set()
    for d in dirs:
        while d:
            alld.add(d)
            d = os.path.dirname(d)
    return sorted(p for p in files if p not in alld)


def gen_config(rng):
    def lst(kind):
        r = rng.random()
        if r < 0.12:
            return None  # library default
        if r < 0.2:
            return []
        out = []
        for _ in range(rng.randint(1, 4)):
            if rng.random() < 0.65:
                out.append(["s", rng.choice(SUFFIXES)])
            else:
                out.append(["r", rng.choice(REGEXES)])
        return out

    return {"allowed": lst("a"), "forbidden": lst("f"), "deprecated_name": rng.random() < 0.15, "two_roots": rng.random() < 0.25}


DEFAULT_ALLOWED = [".css", ".js", ".jsx", ".ts", ".tsx", ".apng", ".png", ".avif", ".gif", ".jpg", ".jpeg", ".jfif", ".pjpeg", ".pjp", ".svg", ".webp", ".bmp", ".ico", ".cur", ".tif", ".tiff", ".eot", ".ttf", ".woff", ".otf", ".svg"]
DEFAULT_FORBIDDEN = [".html", ".django", ".dj", ".tpl", ".py", ".pyc"]


def matches(rel, pats):
    """-> (matched?, ambiguous?)  ambiguous = a regex decides differently on the bare name."""
    hit, amb = False, False
    name = rel.rsplit("/", 1)[-1]
    for kind, p in pats:
        if kind == "s":
            if rel.endswith(p):
                hit = True
        else:
            rx = re.compile(p)
            a, b = rx.search(rel) is not None, rx.search(name) is not None
            if a != b:
                amb = True
            if a:
                hit = True
    return hit, amb


def reference(rel, cfg):
    allowed = cfg["allowed"] if cfg["allowed"] is not None else [["s", s] for s in DEFAULT_ALLOWED]
    forbidden = cfg["forbidden"] if cfg["forbidden"] is not None else [["s", s] for s in DEFAULT_FORBIDDEN]
    a, amb1 = matches(rel, allowed)
    f, amb2 = matches(rel, forbidden)
    return (a and not f), (amb1 or amb2)


def to_setting(pats):
    if pats is None:
        return None
    return [p if k == "s" else re.compile(p) for k, p in pats]


def run_case(env, rec, case):
    tree, cfg = case["tree"], case["cfg"]
    env.n += 1
    base = os.path.join(env.tmp, f"p{env.n}")
    roots = [os.path.join(base, "rootmark_comp")]
    if cfg["two_roots"]:
        roots.append(os.path.join(base, "rootmark_comp2"))
    outside = os.path.join(base, "outside")
    os.makedirs(outside)
    with open(os.path.join(outside, "secret.js"), "w") as f:
        f.write("x")
    # a sibling directory whose NAME merely starts with the component directory's name, holding the same files
    sibling = roots[0] + "_private"
    for rel in tree:
        p = os.path.join(sibling, rel)
        os.makedirs(os.path.dirname(p), exist_ok=True)
        with open(p, "w") as f:
            f.write("private")
    placed = {}  # rel -> root index
    for i, rel in enumerate(tree):
        r = roots[i % len(roots)]
        p = os.path.join(r, rel)
        os.makedirs(os.path.dirname(p), exist_ok=True)
        with open(p, "w") as f:
            f.write(rel)
        placed.setdefault(rel, []).append(r)
    for r in roots:
        os.makedirs(r, exist_ok=True)
    comp = {"dirs": roots, "app_dirs": [], "autodiscover": False}
    if cfg["allowed"] is not None:
        comp["static_files_allowed"] = to_setting(cfg["allowed"])
    if cfg["forbidden"] is not None:
        comp["forbidden_static_files" if cfg["deprecated_name"] else "static_files_forbidden"] = to_setting(cfg["forbidden"])
    try:
        with env.override_settings(COMPONENTS=comp):
            try:
                finder = env.Finder()
                listed = {}
                for path, storage in finder.list([]):
                    listed.setdefault(path, []).append(storage.location)
            except re.error as e:
                rec.violation("suffix-turned-into-invalid-regex", case, {"what": f"re.error: {e}"})
                return
            rec.observe("trees-listed")
            n_exp = n_hid = 0
            for rel in tree:
                exp, amb = reference(rel, cfg)
                in_list = rel in listed
                try:
                    found = finder.find(rel)
                except Exception as e:  # noqa: BLE001
                    rec.violation("find-raised-" + type(e).__name__, case, {"what": f"find({rel!r}): {e}"})
                    continue
                in_find = bool(found)
                rec.observe("files-judged")
                if in_find and not any(os.path.realpath(found) == os.path.realpath(os.path.join(r, rel)) for r in roots):
                    rec.violation("find-returned-wrong-path", case, {"what": f"find({rel!r}) -> {found!r}"})
                if in_list != in_find:
                    rec.violation("find-and-list-disagree", case, {"what": f"{rel!r}: list={'yes' if in_list else 'no'} find={'yes' if in_find else 'no'}", "ambiguous_reference": amb})
                    continue
                if amb:
                    rec.count("ambiguous_reference_skipped")
                    continue
                if in_list != exp:
                    rec.violation("exposed-hidden-file" if in_list else "hidden-allowed-file", case, {"what": f"{rel!r}: exposed={in_list}, reference says {exp}"})
                n_exp += exp
                n_hid += not exp
            for path in listed:
                if path not in placed:
                    rec.violation("listed-unknown-file", case, {"what": path})
            # traversal / absolute / prefix tricks
            probes = ["../outside/secret.js", "sub/../../outside/secret.js", os.path.join(outside, "secret.js"), "..", "/etc/passwd", "./" + (tree[0] if tree else "a.js")]
            for rel in tree[:8]:
                # every file also through its copy in the prefix-named sibling directory, and through the other root
                probes += ["../rootmark_comp_private/" + rel, "sub/../../rootmark_comp_private/" + rel, os.path.join(sibling, rel), "../rootmark_comp2/" + rel, "../rootmark_comp/" + rel, "./" + rel, "nodir/../" + rel, rel.replace("/", "//", 1)]
            for probe in probes:
                try:
                    got = finder.find(probe)
                except env.SFO:
                    rec.count("traversal_rejected")
                    continue
                except Exception as e:  # noqa: BLE001
                    rec.violation("traversal-raised-" + type(e).__name__, case, {"what": f"find({probe!r}): {e}"})
                    continue
                rec.observe("traversal-probes")
                if got:
                    real = os.path.realpath(got)
                    inside = [r for r in roots if real.startswith(os.path.realpath(r) + os.sep)]
                    if not inside:
                        rec.violation("path-outside-component-dirs", case, {"what": f"find({probe!r}) -> {got!r}"})
                    else:
                        # an alias of a file inside a component directory ('./x', 'a/../x', '../<root>/x'): allowed to
                        # resolve, but it must not reveal a file that the configuration hides
                        rel2 = os.path.relpath(real, os.path.realpath(inside[0])).replace(os.sep, "/")
                        exp2, amb2 = reference(rel2, cfg)
                        rec.count("alias_lookups_resolved_inside")
                        if not amb2 and not exp2:
                            rec.violation("hidden-file-exposed-through-alias-path", case, {"what": f"find({probe!r}) -> {got!r}; {rel2!r} is not exposed under this configuration"})
            if cfg["allowed"] is None and cfg["forbidden"] is None:
                for path in listed:
                    if path.endswith((".py", ".pyc", ".html", ".django", ".dj", ".tpl")):
                        rec.violation("default-settings-expose-backend-file", case, {"what": path})
            return n_exp, n_hid
    finally:
        shutil.rmtree(base, ignore_errors=True)


def plan(tier, seed):
    n = 6000 if tier == "quick" else 300000
    nshard = 15 if tier == "quick" else 32
    return [{"name": f"gen_{i:02d}", "n": n // nshard, "idx": i} for i in range(nshard)]


def run_shard(spec, rec):
    env = Env()
    rec.require("trees-listed", "files-judged", "traversal-probes")
    rng = random.Random(f"{spec['seed']}-c17-{spec['idx']}")
    try:
        tree = None
        for i in range(spec["n"]):
            if tree is None or i % 20 == 0:
                tree = gen_tree(rng)
            cfg = gen_config(rng)
            case = {"tree": tree, "cfg": cfg}
            r = run_case(env, rec, case)
            nt = bool(r and r[0] and r[1])
            rec.case(case, nontrivial=nt)
            if cfg["allowed"] is None and cfg["forbidden"] is None:
                rec.count("default_config_cases")
            if nt and rec.want_sample() and i % 97 == 0:
                rec.sample(case)
    finally:
        env.cleanup()


def replay(case, rec):
    env = Env()
    rec.case(("replay", 1))
    rec.case(("replay", 2))
    try:
        run_case(env, rec, case)
    finally:
        env.cleanup()
