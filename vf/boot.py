"""Settings bootstrap for every worker process.

* imports django_components from /repo/src (asserted),
* captures the *unpatched* ``Template.compile_nodelist`` / ``Template.render`` before
  ``django.setup()`` runs the library's monkeypatch (needed by C10a),
* configures a locmem template loader backed by the mutable dict ``LOCMEM`` so that checks
  can create template families without touching the file system.
"""
import hashlib
import os
import sys
from pathlib import Path

REPO_SRC = os.environ.get("VERIF_REPO_SRC", "/repo/src")
VERIF_ROOT = Path(__file__).resolve().parent.parent

LOCMEM = {}  # name -> template source; read by the locmem loader on every lookup
ORIG = {}  # unpatched Template methods
_booted = False


def boot(components=None, extra_settings=None):
    """Idempotent. Returns the django settings object."""
    global _booted
    import django
    from django.conf import settings

    if _booted:
        return settings
    # The editable install already points at /repo/src; a scratch copy can be selected with
    # VERIF_REPO_SRC (used only while validating seeded breakages, never by registered checks).
    if REPO_SRC not in sys.path:
        sys.path.insert(0, REPO_SRC)

    from django.template import Template

    ORIG["compile_nodelist"] = Template.compile_nodelist
    ORIG["render"] = Template.render
    assert not getattr(Template, "_djc_patched", False), "Template patched before boot()"

    base_dir = Path(os.environ.get("VERIF_BASE_DIR", str(VERIF_ROOT / "vf" / "_project")))
    default_settings = {
        "BASE_DIR": base_dir,
        "INSTALLED_APPS": ("django_components",),
        "TEMPLATES": [
            {
                "BACKEND": "django.template.backends.django.DjangoTemplates",
                "DIRS": [],
                "OPTIONS": {
                    "builtins": ["django_components.templatetags.component_tags"],
                    "loaders": [
                        ("django.template.loaders.locmem.Loader", LOCMEM),
                        "django_components.template_loader.Loader",
                    ],
                },
            }
        ],
        "COMPONENTS": {"template_cache_size": 128, "autodiscover": False, **(components or {})},
        "MIDDLEWARE": ["django_components.middleware.ComponentDependencyMiddleware"],
        "DATABASES": {"default": {"ENGINE": "django.db.backends.sqlite3", "NAME": ":memory:"}},
        "SECRET_KEY": "secret",
        "ROOT_URLCONF": "django_components.urls",
        "ALLOWED_HOSTS": ["*"],
        "STATIC_URL": "/static/",
        "USE_TZ": True,
    }
    settings.configure(**{**default_settings, **(extra_settings or {})})
    django.setup()

    import django_components

    here = os.path.realpath(django_components.__file__)
    want = os.path.realpath(REPO_SRC)
    assert here.startswith(want + os.sep), f"django_components imported from {here}, expected under {want}"
    assert getattr(Template, "_djc_patched", False), "library did not patch Template"
    _booted = True
    return settings


def source_hashes():
    """SHA-256 (first 12 hex) of every imported django_components source file."""
    out = {}
    for name, mod in sorted(sys.modules.items()):
        if not name.startswith("django_components"):
            continue
        f = getattr(mod, "__file__", None)
        if not f or not f.endswith(".py"):
            continue
        try:
            out[os.path.relpath(f, REPO_SRC)] = hashlib.sha256(Path(f).read_bytes()).hexdigest()[:12]
        except OSError:
            pass
    return out


def tree_hash():
    """One digest over all django_components sources on disk (no import needed)."""
    h = hashlib.sha256()
    root = Path(REPO_SRC) / "django_components"
    for p in sorted(root.rglob("*.py")):
        h.update(str(p.relative_to(root)).encode())
        h.update(p.read_bytes())
    return h.hexdigest()[:16]
