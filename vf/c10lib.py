"""A plain Django tag library (no django-components involved) for C10a's stock templates."""
from django import template

register = template.Library()


@register.simple_tag
def c10echo(*args, **kwargs):
    return "<" + "|".join(str(a) for a in args) + "".join(f"|{k}={v}" for k, v in sorted(kwargs.items())) + ">"


@register.simple_tag(takes_context=True)
def c10ctx(context, name):
    return f"({name}={context.get(name, '-')})"


@register.filter
def c10wrap(value, arg="*"):
    return f"{arg}{value}{arg}"


@register.simple_tag
def c10boom(kind):
    if kind == "value":
        raise ValueError("boom value")
    raise KeyError("boom key")
