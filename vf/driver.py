"""Driver: shards a check over worker subprocesses, folds verdicts, writes evidence/replays."""
import argparse
import concurrent.futures as cf
import hashlib
import importlib
import json
import os
import shutil
import subprocess
import sys
import tempfile
import time
from pathlib import Path

ROOT = Path(__file__).resolve().parent.parent
PY = os.environ.get("VERIF_PYTHON", "/venv/bin/python")
GUARD = "DJC_VERIF"


def load_known(prop):
    p = ROOT / "known_findings.json"
    if not p.exists():
        return []
    data = json.loads(p.read_text())
    return [f for f in data.get("findings", []) if f.get("property") == prop]


def worker_env(seed):
    env = dict(os.environ)
    env.update(
        PYTHONHASHSEED="0",
        PYTHONDONTWRITEBYTECODE="1",
        PYTHONPATH=str(ROOT) + os.pathsep + env.get("PYTHONPATH", ""),
        VERIF_SEED=str(seed),
        PIP_NO_INDEX="1",
    )
    env[GUARD] = "1"
    return env


def run_one(modname, spec, tmp, env, timeout):
    name = spec["name"]
    sp = os.path.join(tmp, f"{name}.spec.json")
    op = os.path.join(tmp, f"{name}.out.json")
    with open(sp, "w") as f:
        json.dump(spec, f)
    t0 = time.time()
    try:
        cp = subprocess.run(
            [PY, "-X", "faulthandler", "-m", "vf.worker", modname, sp, op],
            cwd=str(ROOT),
            env=env,
            timeout=timeout,
            stdout=subprocess.PIPE,
            stderr=subprocess.PIPE,
        )
        rc, out, err = cp.returncode, cp.stdout, cp.stderr
    except subprocess.TimeoutExpired as e:
        rc, out, err = -9, e.stdout or b"", e.stderr or b""
    res = None
    if os.path.exists(op):
        try:
            with open(op) as f:
                res = json.load(f)
        except Exception:
            res = None
    return {
        "name": name,
        "rc": rc,
        "res": res,
        "stdout": out.decode("utf-8", "replace")[-4000:],
        "stderr": err.decode("utf-8", "replace")[-6000:],
        "wall_s": time.time() - t0,
    }


def fold(results):
    agg = {
        "evaluations": 0,
        "nontrivial_evals": 0,
        "digests": set(),
        "digest_capped": False,
        "counters": {},
        "samples": [],
        "violations": [],
        "violation_count": 0,
        "known": {},
        "inconclusive": {},
        "monitors": {},
        "exhaustive": [],
        "notes": [],
        "crashed": [],
    }
    for r in results:
        res = r["res"]
        if r["rc"] != 0 or res is None:
            agg["crashed"].append({"shard": r["name"], "rc": r["rc"], "stderr": r["stderr"][-1500:]})
        if res is None:
            continue
        agg["evaluations"] += res["evaluations"]
        agg["nontrivial_evals"] += res["nontrivial_evals"]
        agg["digest_capped"] |= res["digest_capped"]
        try:
            raw = Path(res["digests_file"]).read_bytes()
            for i in range(0, len(raw), 8):
                agg["digests"].add(raw[i : i + 8])
        except OSError:
            pass
        for k, v in res["counters"].items():
            if k.startswith("max:"):
                agg["counters"][k] = max(agg["counters"].get(k, 0), v)
            else:
                agg["counters"][k] = agg["counters"].get(k, 0) + v
        for s in res["samples"]:
            agg["samples"].append(s)
        agg["violations"].extend(res["violations"])
        agg["violation_count"] += res["violation_count"]
        for fid, k in res["known"].items():
            a = agg["known"].setdefault(fid, {"hits": 0, "example": None})
            a["hits"] += k["hits"]
            if a["example"] is None:
                a["example"] = k["example"]
        for k, v in res["inconclusive"].items():
            agg["inconclusive"][k] = agg["inconclusive"].get(k, 0) + v
        for k, v in res["monitors"].items():
            agg["monitors"][k] = agg["monitors"].get(k, 0) + v
        if res["exhaustive"] is not None:
            agg["exhaustive"].append(bool(res["exhaustive"]))
        agg["notes"].extend(res["notes"])
    return agg


def pick_samples(samples, n=5):
    if len(samples) <= n:
        return samples
    step = len(samples) / n
    return [samples[int(i * step)] for i in range(n)]


def main(argv=None):
    ap = argparse.ArgumentParser(prog="check")
    ap.add_argument("prop")
    ap.add_argument("--tier", default=os.environ.get("VERIF_TIER") or "quick", choices=["quick", "thorough"])
    ap.add_argument("--seed", type=int, default=int(os.environ.get("VERIF_SEED") or 0))
    ap.add_argument("--replay")
    ap.add_argument("--jobs", type=int, default=int(os.environ.get("VERIF_JOBS") or min(16, os.cpu_count() or 4)))
    ap.add_argument("--shards", help="comma list of shard names to run (debugging)")
    ap.add_argument("--no-evidence", action="store_true")
    args = ap.parse_args(argv)

    prop = args.prop.upper()
    modname = f"vf.checks.{prop.lower()}"
    sys.path.insert(0, str(ROOT))
    mod = importlib.import_module(modname)
    findings = load_known(prop)
    known_ids = [f["id"] for f in findings]
    env = worker_env(args.seed)
    tmp = tempfile.mkdtemp(prefix=f"vf-{prop}-")
    t0 = time.time()
    try:
        if args.replay:
            return do_replay(prop, mod, modname, args, env, tmp, known_ids, findings)
        shards = mod.plan(args.tier, args.seed)
        for i, s in enumerate(shards):
            s.setdefault("name", f"s{i:03d}")
            s.update(tier=args.tier, seed=args.seed, known_ids=known_ids, prop=prop)
            s.setdefault("watchdog_s", 3000 if args.tier == "quick" else 6 * 3600)
        if hasattr(mod, "run_witnesses") and findings:
            shards.insert(
                0,
                {
                    "name": "witness",
                    "mode": "witness",
                    "findings": findings,
                    "tier": args.tier,
                    "seed": args.seed,
                    "known_ids": known_ids,
                    "prop": prop,
                    "watchdog_s": 900,
                },
            )
        if args.shards:
            keep = set(args.shards.split(","))
            shards = [s for s in shards if s["name"] in keep]
        results = []
        with cf.ThreadPoolExecutor(max_workers=max(1, args.jobs)) as ex:
            futs = [ex.submit(run_one, modname, s, tmp, env, s["watchdog_s"] + 120) for s in shards]
            for f in cf.as_completed(futs):
                results.append(f.result())
        results.sort(key=lambda r: r["name"])
        agg = fold(results)
        return finish(prop, mod, args, agg, findings, time.time() - t0, len(shards))
    finally:
        shutil.rmtree(tmp, ignore_errors=True)


def do_replay(prop, mod, modname, args, env, tmp, known_ids, findings):
    data = json.loads(Path(args.replay).read_text())
    spec = {
        "name": "replay",
        "mode": "replay",
        "case": data["case"],
        "tier": data.get("tier", "quick"),
        "seed": data.get("seed", 0),
        "known_ids": known_ids,
        "prop": prop,
        "watchdog_s": 1800,
    }
    r = run_one(modname, spec, tmp, env, 1900)
    agg = fold([r])
    print(json.dumps({"replayed": args.replay, "violations": agg["violations"][:3], "known": agg["known"]}, indent=1, default=repr)[:6000])
    for fid, k in agg["known"].items():
        print(f"KNOWN-FINDING: property={prop} {fid} (replay)")
    if agg["crashed"]:
        print(f"INCONCLUSIVE property={prop} reason=replay-worker-crashed")
        print(agg["crashed"][0]["stderr"])
        return 2
    if agg["violation_count"]:
        print(f"VIOLATION property={prop} replay={args.replay}")
        return 1
    print(f"replay of {args.replay}: no violation observed")
    return 0


def finish(prop, mod, args, agg, findings, wall, nshards):
    level = getattr(mod, "LEVEL", "exploration")
    distinct = len(agg["digests"])
    rule = getattr(mod, "RULE", "")
    if agg["digest_capped"]:
        rule += " [distinct count is conservative: digests recorded only for the first %d non-trivial cases per shard]" % 100_000
    exhaustive = bool(agg["exhaustive"]) and all(agg["exhaustive"]) and not agg["crashed"]

    # --- replay files ---------------------------------------------------------------
    replay_dir = ROOT / "replay"
    replay_dir.mkdir(exist_ok=True)
    viol_lines = []
    seen = set()
    for v in agg["violations"]:
        blob = json.dumps(v["case"], sort_keys=True, default=repr)
        dg = hashlib.sha256((v["class"] + blob).encode()).hexdigest()[:12]
        if dg in seen:
            continue
        seen.add(dg)
        path = replay_dir / f"{prop}-{dg}.json"
        path.write_text(
            json.dumps(
                {"property": prop, "tier": args.tier, "seed": args.seed, "class": v["class"], "case": v["case"], "detail": v["detail"]},
                indent=1,
                default=repr,
                ensure_ascii=False,
            )
        )
        viol_lines.append((v["class"], path))

    # --- verdict -------------------------------------------------------------------
    inconc_reasons = []
    if agg["crashed"]:
        inconc_reasons.append("worker-crashed:" + ",".join(c["shard"] for c in agg["crashed"][:5]))
    for m, n in agg["monitors"].items():
        if n == 0:
            inconc_reasons.append(f"monitor-never-fired:{m}")
    n_inc = sum(v for k, v in agg["inconclusive"].items())
    if agg["evaluations"] == 0:
        inconc_reasons.append("no-evaluations")
    elif n_inc > 0.02 * max(1, agg["evaluations"]):
        inconc_reasons.append(f"inconclusive-cases:{n_inc}/{agg['evaluations']}")
    if distinct < 2:
        inconc_reasons.append("fewer-than-2-distinct-nontrivial-cases")

    known_out = {}
    for f in findings:
        k = agg["known"].get(f["id"])
        known_out[f["id"]] = {"hits": k["hits"] if k else 0, "reproduced": bool(k and k["hits"]), "what": f.get("what", "")}

    evidence = {
        "property_id": prop,
        "tier": args.tier,
        "seed": args.seed,
        "level": level,
        "coverage": {
            "evaluations": agg["evaluations"],
            "distinct_nontrivial": distinct,
            "rule": rule,
            "samples": pick_samples(agg["samples"]),
            "exhaustive": exhaustive,
            "nontrivial_evaluations": agg["nontrivial_evals"],
            "shards": nshards,
            "monitor_observations": agg["monitors"],
            "counters": dict(sorted(agg["counters"].items())),
            "inconclusive": agg["inconclusive"],
            "known_findings": known_out,
            "notes": agg["notes"][:20],
            "crashed_shards": agg["crashed"][:5],
        },
        "assumptions": list(getattr(mod, "ASSUMPTIONS", [])),
        "wall_s": round(wall, 2),
        "violations": agg["violation_count"],
    }
    try:
        from vf import boot

        evidence["coverage"]["repo_tree_sha"] = boot.tree_hash()
    except Exception:
        pass
    if not args.no_evidence:
        ev_dir = ROOT / "evidence"
        ev_dir.mkdir(exist_ok=True)
        (ev_dir / f"{prop}.json").write_text(json.dumps(evidence, indent=1, default=repr, ensure_ascii=False) + "\n")

    print(
        f"[{prop}] tier={args.tier} seed={args.seed} shards={nshards} evaluations={agg['evaluations']} "
        f"distinct_nontrivial={distinct} violations={agg['violation_count']} wall={wall:.1f}s"
    )
    top = sorted(agg["counters"].items())
    if top:
        print("  observed: " + ", ".join(f"{k}={v}" for k, v in top[:40]))
    if agg["monitors"]:
        print("  monitors: " + ", ".join(f"{k}={v}" for k, v in sorted(agg["monitors"].items())))
    for fid, k in known_out.items():
        if k["reproduced"]:
            print(f"KNOWN-FINDING: property={prop} {fid}: {k['what']} (hits={k['hits']})")
        else:
            print(f"  note: listed finding {fid} was not reproduced in this run")
    if agg["crashed"]:
        print(f"  WARNING: {len(agg['crashed'])} worker(s) crashed: " + ",".join(c["shard"] for c in agg["crashed"][:8]))
        print(agg["crashed"][0]["stderr"][-1500:])
        for n in agg["notes"][:2]:
            print(n)
    if viol_lines:
        for klass, path in viol_lines[:10]:
            print(f"VIOLATION property={prop} replay={path}  # {klass}")
        return 1
    if agg["violation_count"]:
        print(f"VIOLATION property={prop} replay={replay_dir}")
        return 1
    if inconc_reasons:
        print(f"INCONCLUSIVE property={prop} reason={';'.join(inconc_reasons)}")
        for c in agg["crashed"][:2]:
            print(c["stderr"])
        for n in agg["notes"][:3]:
            print(n)
        return 2
    return 0


if __name__ == "__main__":
    sys.exit(main())
