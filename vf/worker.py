"""Worker entry point: ``python -m vf.worker <module> <spec.json> <out.json>``.

One fresh process per shard, so process-global library state of one shard cannot mask
another's.  A crash of the worker is reported by the driver as *inconclusive*, never as held.
"""
import faulthandler
import importlib
import json
import os
import sys
import traceback


def main():
    modname, spec_path, out_path = sys.argv[1:4]
    faulthandler.enable()
    with open(spec_path) as f:
        spec = json.load(f)
    wd = spec.get("watchdog_s")
    if wd:
        # generous wall-clock watchdog; its firing is inconclusive (the driver sees exit != 0)
        faulthandler.dump_traceback_later(wd, exit=True)
    from vf.rec import Recorder

    rec = Recorder(spec)
    mod = importlib.import_module(modname)
    try:
        if spec.get("mode") == "replay":
            mod.replay(spec["case"], rec)
        elif spec.get("mode") == "witness":
            mod.run_witnesses(spec, rec)
        else:
            mod.run_shard(spec, rec)
    except BaseException:
        rec.inconc("worker-exception")
        rec.note(traceback.format_exc()[-3000:])
        rec.dump(out_path)
        sys.stdout.flush()
        os._exit(3)
    rec.dump(out_path)
    sys.stdout.flush()
    # skip interpreter teardown (module-global registries of thousands of classes)
    os._exit(0)


if __name__ == "__main__":
    main()
