#!/bin/sh
# tools/with_patch.sh <patch.diff> <command...>
# Runs <command> against a scratch copy of /repo/src with the patch applied (copy lives under
# /tmp and is removed afterwards).  Used only to validate the checks against seeded breakages;
# registered checks always run against /repo itself.
set -e
PATCH="$(realpath "$1")"; shift
D="$(mktemp -d /tmp/djc-scratch-XXXXXX)"
trap 'rm -rf "$D"' EXIT
mkdir -p "$D/repo"
cp -r /repo/src "$D/repo/src"
( cd "$D/repo" && patch -p1 -s < "$PATCH" )
set +e
PYTHONPATH="$D/repo/src" VERIF_REPO_SRC="$D/repo/src" "$@"
RC=$?
exit $RC
