#!/bin/sh
# tools/sweep.sh <tier> <seed>... - run_all.sh for several seeds (false-alarm hunt on the unchanged tree)
cd "$(dirname "$0")/.." || exit 2
TIER="$1"; shift; RC=0
for s in "$@"; do echo "== seed $s"; tools/run_all.sh "$TIER" "$s" 2>&1 | grep -v "^KNOWN" || true; done
