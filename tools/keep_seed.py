#!/usr/bin/env python3
"""tools/keep_seed.py <ID> <seed dir> <caught: 'N violations' text> [--strengthened "what changed in the check"]
Copies a confirmed seeded change into /verif/seeded/<ID>/ (patch.diff, demo.py, notes.md) and writes meta.json.
'breaks' / 'needs' are taken from files breaks.txt / needs.txt in the seed dir (written by hand after reading the
sub-agent's notes and confirming with tools/try_seed.sh)."""
import json, os, re, shutil, sys

sid, sd, caught = sys.argv[1], sys.argv[2], sys.argv[3]
strengthened = sys.argv[5] if len(sys.argv) > 5 and sys.argv[4] == "--strengthened" else None
prop = sid[:3]
out = f"/verif/seeded/{sid}"
os.makedirs(out, exist_ok=True)
shutil.copy(f"{sd}/patch.diff", f"{out}/patch.diff")
demo = open(f"{sd}/demo.py").read()
demo = re.sub(r"/tmp/seed[234567]?/C\d\d/_seed", "/tmp", demo)
demo = re.sub(r"/tmp/seed[234567]?/C\d\d", "<scratch copy of the repository>", demo)
open(f"{out}/demo.py", "w").write(demo)
if os.path.exists(f"{sd}/notes.md"):
    shutil.copy(f"{sd}/notes.md", f"{out}/notes.md")
meta = {
    "id": sid,
    "property": prop,
    "origin": "written by a fresh sub-agent that saw only the property text and a scratch worktree of the repository (nothing from /verif)",
    "files_changed": re.findall(r"^\+\+\+ b/(\S+)", open(f"{sd}/patch.diff").read(), re.M),
    "breaks": open(f"{sd}/breaks.txt").read().strip(),
    "needs_to_manifest": open(f"{sd}/needs.txt").read().strip(),
    "confirmed_by": [
        "tools/try_seed.sh <this dir> " + prop + "  (scratch copy of /repo HEAD under /tmp, removed afterwards)",
        "demo.py on the unchanged copy: exit 0",
        "demo.py on the patched copy: exit 1",
        "repository suite on the patched copy: 514 passed, 1 skipped, 25 deselected",
    ],
    "check_result": f"./check {prop} --tier quick against the patched copy (tools/with_patch.sh): {caught}",
}
if strengthened:
    meta["check_strengthened"] = strengthened
json.dump(meta, open(f"{out}/meta.json", "w"), indent=1)
print("kept", out)
