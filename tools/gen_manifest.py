#!/usr/bin/env python3
"""Regenerates MANIFEST.json from the table below (keeps it valid while checks are added)."""
import json
import os
import sys

ROOT = os.path.dirname(os.path.dirname(os.path.abspath(__file__)))

# id -> (category, technique, text, note, design_ref)
CHECKS = {
    "C07": (
        "exploration",
        "controlled thread scheduler driven by sys.monitoring LINE events in the library's shared-state modules (exactly one task runs; schedules replay), exhaustive single pre-emptions + sampled double pre-emptions + PCT random priorities + free-running 1us-switch stress; solo-result oracle, container census after join, LRU invariant walker, owner-tagged ids",
        "Workloads of 2-3 real threads (provider+consumer renders from generated programs, a failing render inside a provider, renders compiling fresh templates through a template cache of size 1-2, first access of a fresh class's media/js/css/template, first compilation of a component tag): quick ~16k schedules (every single pre-emption point of 30 two-task workloads, 600 PCT schedules of 16 three-task workloads, 6 stress runs), thorough ~1.5M. Each task's output or exception class must equal its solo result, the registries found by the census must hold no residue after join, the template LRU must satisfy its structural invariant. Held on the schedules executed; not a proof of race freedom.",
        "Yield points are statement starts inside django_components modules; the library's own locks are replaced by tracked locks so that the scheduler never pre-empts inside them; interleavings inside Django and inside single statements are not explored.",
        "DESIGN.md §2 C07, §1 E2",
    ),
    "C10": (
        "exploration",
        "(a) differential monitor: patched Template.compile_nodelist/render vs the saved original Django methods on the same generated stock template families; (b) metamorphic monitor: extends/block/include family of a component program vs the hand-flattened program",
        "(a) 2k (quick) / 100k (thorough) generated stock families (extends chains, includes, blocks with block.super, for/if/with/autoescape/firstof/cycle, custom tags/filters of a plain Library with quoted arguments, ~8% erroneous) x 2 contexts x engine.debug on/off are compiled and rendered with the patched methods and with the originals captured before django.setup(): output or exception text, the Context layers (keys and values), the render-context depth, the template binding and context.template_name left on the Context must be identical. (b) 4k / 60k E1 programs whose page / component templates are split - at the top level and inside fill bodies, slot defaults and loop bodies - into base+child(+grandchild)+include families (30% with every page-level tag written through the dynamic component) must render exactly like the flattened program in both modes; a monitor on BlockNode.render excludes families that render a block inside its own render. One listed finding (block state shared between nested extends-based templates) is attributed by a rename-based defect model; a second one ({{ block.super }} in the fill of a component nested in a block of an extends-based component never finishes rendering) is kept by a stored witness run under a logical instantiation guard.",
        "(a) trusts that swapping the two class attributes restores stock behaviour (asserted: the saved functions are Django's own); (b) equivalence is by construction under Django's documented semantics.",
        "DESIGN.md §2 C10",
    ),
    "C03": (
        "exploration",
        "reference-interpreter monitor on binding-site-identifying output (every bound value names its binding site), two page contexts per program (2-run non-interference), caller-Context snapshot monitor; listed findings attributed by exact or token-level defect models",
        "12k (quick) / 150k (thorough) E1 programs in the scope flavour (x/y/z bound by page context, component data, with/for around tags, between tag and fill and inside templates, kwargs, slot-data aliases, `only`) are rendered in both modes with two page contexts; every printed variable must show the binding the statement selects; the caller's Context (layers and render-context depth) must be unchanged after each top-level render. Two further shards decide by construction: loop state (1-3 nested loops around a component tag at page level or inside host components, 0-2 loops between tag and fill; forloop.counter0 along the whole parentloop chain printed by the component template, the implicit body or looped explicit fills must be the loop indices AT THE TAG) and in-place rebinding (random small templates of {% firstof .. as v %} / component tags / with / if / for: what a deferred component and its fill print for v must be the value at the tag). Two defects of the pinned tree remain listed findings (loop layer forwarded into isolated components; placement / merge order of the layer captured for a fill) with mechanism-keyed classifiers; eight further scoping defects were repaired in the repository; any other mismatch is a violation.",
        "Reads the statement leaves open (with between tag and fill in isolated mode; names bound by intermediate components / around the slot in django mode) are not judged; see DESIGN.md §4.",
        "DESIGN.md §2 C03, Appendix A/B",
    ),
    "C06": (
        "fault_enumeration",
        "failpoint enumeration over every user-callback invocation of every generated program, with an exception-class monitor, weakref liveness sentinels, a reflection-based container census, follow-up renders and a steady-state growth monitor",
        "600 (quick) / 6000 (thorough) generated programs; for each, a clean run counts the user-code invocations (get_context_data, inject, on_render_before/after, slot functions, harness filter and tag) and then EVERY invocation index is made to raise (exception kind rotating over ValueError, KeyError(7), OSError(2,'x'), a multi-line custom error; all four per index in the thorough tier). After each failed render: the surfaced exception must be of the injected class and carry the failing component's path, sentinels given to the render (context value, kwarg, slot functions, the Context) must be dead after gc, the census of all module-level containers of django_components.* must equal the warm baseline, the caller's Context must have its layers back, a later clean render must equal the baseline, and ten canary pages (hard compositions from the skeleton catalogue, verified against the reference interpreter at worker start) must still render as at the start after every program's fault sweep; a steady-state run of 60 / 300 alternating clean and failing renders must not grow the census or the gc object count (> 0.2 objects per repetition).",
        "Exhaustive in the callback index per program, sampled in programs; unbounded repetition is out of reach - growth is judged over K repetitions.",
        "DESIGN.md §2 C06",
    ),
    "C04": (
        "exploration",
        "reference-interpreter monitor (rendered classes in first-appearance order) on the parsed delivered document and on the decoded loader JSON; three delivery routes compared",
        "6k (quick) / 80k (thorough) E1 programs decorated with js/css/Media (shared files, single and multiple inheritance, Media.extend = False / [classes], dict css, blank js; class names ASCII / non-ASCII / dashed / dotted), wrapped as head+body pages with or without dependency placeholders or bare, are delivered in document and fragment mode through render_dependencies(), the middleware and Component.render(); inline script/style tokens must be exactly those of the rendered classes, once, in order; Media URLs once each; nothing from unrendered classes; no marker/placeholder left; fragment JSON must declare the same set. Each program is followed by two later pages over the SAME classes (media resolved and cached by then) that render 1-2 of them alone - usually a class others inherit or extend from - and are judged the same way: what a class delivers must not depend on what was rendered before.",
        "html.parser + base64/JSON decoding are the trusted readers; bare pages are judged only for leftovers (nowhere to insert).",
        "DESIGN.md §2 C04",
    ),
    "C19": (
        "exploration",
        "history monitor: every endpoint URL announced by a render is fetched with django.test.Client right after that render, across histories with cache clears and class re-use, under two cache backends; request-path/method fuzz",
        "2k (quick) / 40k (thorough) histories of 3-8 document/fragment renders (classes with single inheritance, re-used across steps) with media-cache clears in between, under the default LocMem cache and a named Django cache: each announced component URL must answer 200 with exactly that class's js/css and the matching content type, and the set of served codes must equal the rendered classes' codes; 3k / 100k fuzzed paths (unknown hashes, kinds, input hashes, dots/colons, all HTTP methods) must give 404/405, never 5xx or component code.",
        "Eviction between a render and the fetch of its URLs is out of the quantifier.",
        "DESIGN.md §2 C19",
    ),
    "C14": (
        "exploration",
        "reference-interpreter monitor on parsed final HTML: per element occurrence the set of data-djc-id markers vs the instances for which the element is top-level output; id echo links model instances to real ids; deep root chains",
        "9k (quick) / 100k (thorough) E1 programs built from uniquely named elements (0..n root elements, text-only roots, nested elements, components as roots, components in loops/slots/fills) are rendered in both modes; the final HTML is parsed and every element's marker set must equal the interpreter's instance set, with echoed Component.id == marker id and all ids distinct; root chains of depth 50-300 (quick) / 500-2000 (thorough) must render without recursion error with the leaf roots carrying every id of the chain. A markup shard (2k / 60k components, decided by construction) puts ordinary HTML at the root - void elements, comments, nested elements, child components, inline <script> / <style> whose text contains '<', '>' or end-tag look-alikes: every top-level start tag must carry the instance's id (children's roots both), nested elements none. One listed finding (the third-party HTML parser reads script / style text as markup) is attributed by a mechanism-keyed classifier with stored witnesses.",
        "html.parser is the trusted reader; ids of dynamic-component wrappers are not echoed and are solved for (one consistent, distinct, otherwise unused id per wrapper on exactly the roots of its target); classes may call OtherClass.render() inside get_context_data() (nested root renders).",
        "DESIGN.md §2 C14",
    ),
    "C05": (
        "exploration",
        "reference-interpreter monitor (providers follow the rendered structure) on consumer echoes, history monitor over sequences of renders in one process, quiescent census invariant on the provide registries",
        "3k programs + 300 histories (quick) / 100k + 10k (thorough): providers at page level and in component templates, nested/shadowing, around slots, inside fills, in loops, with sibling and descendant consumers (with and without default); each consumer echoes the injected provider instance and kwargs; output or exception class must equal the interpreter's in both modes and at every position of a history that also contains failing renders; after every successful top-level render the reflection-found provide registries must not have grown.",
        "Providers between a component tag and its fills are not generated; registry residue of *failed* renders is judged by C06.",
        "DESIGN.md §2 C05",
    ),
    "C01": (
        "exploration",
        "reference-interpreter monitor on token-identifying output of generated component programs, three render routes, logical divergence guard on component instantiations, AST shrinker for witnesses",
        "9k (quick) / 160k (thorough) generated programs (free growth + decorated skeletons of the hard compositions: slot in default content under a foreign component, fill forwarding 2-4 levels, one slot name filled at three levels, root chains, slots in loops with dynamic names, looped fills whose loop variable shadows a loop around the component tag with a pass-through slot inside; ~8% erroneous) are rendered by the real library in django and isolated mode through plain tags and through the dynamic component, plus Component.render(slots=str|func) for the first class; every output (or exception class) must equal the reference interpreter's; more than 20x the predicted component instantiations is reported as non-termination. One listed finding (the layer captured for a looped fill is hidden by a same-named binding of the enclosing component's template in isolated mode - the mechanism of C03's listed finding seen through slot names) is attributed by an exact defect model.",
        "Trusts the ~300-line reference interpreter (vf/model/interp.py), written from the statement; programs the statement leaves open are skipped and counted.",
        "DESIGN.md §2 C01, §1 E1, Appendix A/B",
    ),
    "C16": (
        "exploration",
        "reference-model monitor over generated class hierarchies (real Component subclasses), access-order metamorphic monitor with fresh class objects per order, pair-rule model, module-based components with real files",
        "All hierarchies of up to 3 (quick) / 4 (thorough) classes over bases x Media form x extend, plus seeded hierarchies of 4-6 classes with diamonds, are built as real Component subclasses and .media is read in four first-access orders (leaf first, root first, shuffled, through instances): files must equal the reference union per medium, without duplicates, in an order consistent with all declared lists, identically for every order; template/js/css pairs (inline, *_file with real files, None, both) - the inlined member AND the *_file member read back - must follow the nearest-definition rule or raise ImproperlyConfigured; components imported from real modules in a temp component dir must give the same resolved paths whatever is read first.",
        "Exhaustive only within the stated class-count bound and Media-form catalogue; order judged only for mutually consistent declarations.",
        "DESIGN.md §2 C16",
    ),
    "C17": (
        "exploration",
        "reference predicate over real temp directory trees: find() and list() of the real finder compared with the statement's allow/forbid rule and with each other; traversal probes",
        "6k (quick) / 600k (thorough) (tree, configuration) pairs: files with multi-dot / look-alike / metacharacter names in nested directories, allowed/forbidden lists of dotted suffixes and compiled regexes (incl. anchored ones and one that matches only the absolute root), defaults, empty lists and the deprecated setting name; every file is looked up through find() and list(); traversal, absolute and prefix-trick lookups must raise SuspiciousFileOperation or return nothing; defaults must never expose .py/.pyc/.html/... files.",
        "Regexes are taken to apply to the path relative to the component dir; where that differs from the bare name only find/list agreement is judged.",
        "DESIGN.md §2 C17",
    ),
    "C20": (
        "exploration",
        "reference walk (os.walk + the statement's rule) vs get_component_files on real temp projects incl. generated Django apps; importlib resolution of returned dotted paths",
        "3k (quick) / 100k (thorough) temp projects with component dirs configured through COMPONENTS.dirs, legacy STATICFILES_DIRS (plain and tuple form) and app_dirs of generated, really installed apps; up to three component dirs, half of the multi-dir cases with a sibling whose path merely starts with another's (comps / comps_extra); underscore-/dot-prefixed files and directories at every level, __init__.py, non-.py files, dotted names, directories named like modules; for each suffix the returned (file, dotted path) multiset must equal the reference and identifier-only paths must resolve through importlib.util.find_spec to the same file.",
        "Component dirs lie under BASE_DIR and do not overlap; names with consecutive dots are not generated.",
        "DESIGN.md §2 C20",
    ),
    "C13": (
        "exploration",
        "round-trip monitor (rendered attributes parsed back with html.parser vs a reference merge), exactly-once escape-level counter for slot content, parsed-element monitor for the js/css end-tag guard",
        "120k (quick) / 1.5M (thorough) html_attrs invocations over colliding attribute names and hostile values, passed as positional/keyword dicts, attrs:k= / defaults:k= aggregation, ...spreads, literals and repeated keywords, are rendered into <x-probe ...> and parsed back: the (name, value) multiset must equal the reference merge and nothing may break out of the tag; slot content in 6 forms x escape flag x 3 nesting shapes - Slot instances also after the SAME object was handed to earlier renders with the opposite flag - must come out escaped exactly once (or not at all when safe / flag off); component js/css with end-tag look-alikes in any case must be refused or else parse back intact.",
        "html.parser is the trusted HTML reader; names limited to valid lower-case attribute names; bool/None never meet another value for the same name.",
        "DESIGN.md §2 C13",
    ),
    "C02": (
        "exploration",
        "reference-model + metamorphic monitor: grammar-generated argument ASTs, leaves evaluated by stock Django, containers/spreads by Python; many layouts x two real receivers compiled and rendered through real templates",
        "12k (quick) / 300k (thorough) argument-list ASTs (nested list/dict literals, */**/... spreads, filter chains with arguments, translation strings, dynamic strings with {{ }}/{% %}/{# #}, aggregate and special-character keys, flags) are written out in 3-5 layouts each (whitespace, newlines, trailing commas, quote style with re-escaping, self-closing vs end tag) and rendered through a probe BaseNode and a probe Component under 1-3 contexts (every other compiled template is first rendered with a decoy context: a node renders many times and each time denotes the values of that context); the received (args, kwargs, flags) must equal the reference value for every layout; the documented-invalid spread combinations must raise TemplateSyntaxError.",
        "Trusts stock Django's FilterExpression/Template for leaf values and the E4 generator's notion of 'documented grammar' (DESIGN.md §4 lists what is not generated).",
        "DESIGN.md §2 C02, §1 E4",
    ),
    "C12": (
        "exploration",
        "exception-type monitor + sys.monitoring LINE-event step budget (raises from the callback) + doubling-ratio monitor + per-parse alarm + serialise/re-parse round trip, over exhaustive short strings, random long strings, mutations of valid tags and whole templates",
        "Every string over a 22-symbol syntax alphabet up to length 4 (quick) / 5, plus length 6 over 14 structural symbols (thorough), is fed to parse_tag and compiled inside slot/component/html_attrs/provide/fill/custom tags; plus random strings to length 200, single-edit mutations of grammar-generated tags, generated whole templates and scaled families (incl. unterminated strings full of escapes / long plain tails, the shapes on which an ambiguous string regex backtracks exponentially). Any exception other than TemplateSyntaxError, a LINE-event count above 60n^2+4000n+20000, a doubling ratio above 4.5 or a 20 s alarm is a violation; grammar-generated tags must survive serialise -> re-parse unchanged.",
        "C-level regex time is only bounded by the alarm (a shard ends after 5 alarms); memory is not separately measured (a step bound bounds allocation by the scanners). One listed finding: Django's own {% verbatim %} AttributeError, attributed only when unpatched Django fails identically.",
        "DESIGN.md §2 C12",
    ),
    "C08": (
        "exploration",
        "by-construction oracle over typed document pieces; CSS/JS strings taken from the implementation on a canonical document; type-preservation and middleware pass-through monitors",
        "150k (quick) / 2M (thorough) documents assembled from text (non-ASCII, look-alike tags/markers/placeholders), </head> / </body> in any order and whitespace/case variants, placeholders in every emitted form and markers of real rendered components (whose inline js/css contain non-ASCII text) are pushed through render_dependencies (str, SafeString, UTF-8 and latin-1 bytes compared byte for byte; document and fragment) and the middleware; the output must equal the pieces minus markers/placeholders with the generated tags at the documented positions, with the input type preserved; non-HTML and streaming responses must come back untouched.",
        "Trusts the piece-wise construction (a guard regenerates documents whose concatenation forms sensitive substrings across piece boundaries); marker comments always name registered, rendered components.",
        "DESIGN.md §2 C08",
    ),
    "C15": (
        "exploration",
        "history + executable dict model: exhaustive mutator sequences on real ComponentRegistry/Library, all observers after every step",
        "Every register/unregister/clear/switch-formatter sequence (the registry's settings are a getter, so the tag a name maps to changes between calls) of length 5 (quick) / 6 (thorough) over 3 names (one a protected tag name) x 3 classes, under 5 formatter/protection configurations, is run on a fresh registry with a private Library; after each step all(), get() per name, set(library.tags) and the identity of pre-existing tag functions are compared with a dict model that also predicts the exception class; a component registered again under a changed formatter may use its old tag, the new one or both, and none once it is unregistered. Exhaustive within the bound; longer two-registry histories are seeded samples.",
        "Private Library instances only; unprotected pre-existing tags colliding with component tags are excluded (DESIGN.md §4).",
        "DESIGN.md §2 C15",
    ),
    "C11": (
        "exploration",
        "differential monitor against the real CPython call: exhaustive signatures x argument sequences through NodeMeta.wrapper_render (fast and fallback validators, plain and spread renderings) and through compiled {% tag %} templates",
        "All render() signatures with up to 4 (quick) / 5 (thorough) parameters over positional-only / positional-or-keyword / *args / keyword-only / **kwargs with and without defaults, crossed with all argument sequences up to length 4 / 5 over positional, each parameter name (including keywords named like the *args / **kw parameter itself), unknown, non-identifier and reserved-word keywords; acceptance, exception class and bindings must equal those of the compiled Python call. Exhaustive within the bound.",
        "Trusts CPython's call semantics as the oracle and the fake TagAttr objects that feed resolve_params; a stratified sample goes through real template compilation.",
        "DESIGN.md §2 C11",
    ),
    "C09": (
        "exploration",
        "invariant monitors (partition, contents, line numbers) on every token stream + differential vs stock DebugLexer + reference lexer for quote-aware boundaries; Parser hook to observe the stream Template compiles from",
        "200k (quick) / 3M (thorough) generated sources (typed pieces with quoted strings holding %} }} newlines escapes, multi-line tags, verbatim blocks, unterminated constructs, raw delimiter noise) are lexed by the real parse_template; every stream is checked for contiguity/coverage, contents-vs-span, lineno = 1 + preceding newlines, identity with stock Django when no block tag holds a quote, and equality with a reference lexer otherwise; a sample is compiled through Template() to observe the tokens handed to the Parser and the template_debug line.",
        "Reference lexer written from the statement (vf/model/lexer.py); multiline tags on (library default).",
        "DESIGN.md §2 C09",
    ),
    "C18": (
        "exploration",
        "reference-model monitor (OrderedDict LRU) + linked-list invariant walker after every operation, exhaustive op sequences; differential vs fresh compile for cached_template/component renders",
        "Every get/has/set/clear sequence up to length 6 (quick) / 7 over 3 keys and 6 over 4 keys (thorough) for maxsize in {None,0,1,2,3} is executed on the real LRUCache with a model comparison and an invariant walk after each step (exhaustive within that bound), plus seeded long sequences and cached_template / component-render histories under every template_cache_size. Held on what was executed; longer histories are only sampled.",
        "Trusts the OrderedDict model and the harness; has() is taken not to refresh recency.",
        "DESIGN.md §2 C18",
    ),
}

PENDING_REASON = "check not built yet in this revision (work in progress; see DESIGN.md §7 build order)"


def main():
    props = [json.loads(line)["id"] for line in open(os.path.join(ROOT, "properties.jsonl"))]
    checks = []
    na = []
    for pid in props:
        if pid in CHECKS and os.path.exists(os.path.join(ROOT, "vf", "checks", pid.lower() + ".py")):
            cat, tech, text, note, ref = CHECKS[pid]
            checks.append(
                {
                    "property_id": pid,
                    "quick_cmd": f"./check {pid} --tier quick",
                    "thorough_cmd": f"./check {pid} --tier thorough",
                    "evidence_file": f"/verif/evidence/{pid}.json",
                    "replay_cmd_template": f"./check {pid} --replay {{path}}",
                    "engine": "vf",
                    "level_claimed": {"category": cat, "text": text, "design_ref": ref},
                    "level_note": note,
                    "technique": tech,
                }
            )
        else:
            na.append({"property_id": pid, "reason": PENDING_REASON})
    manifest = {
        "version": 1,
        "setup_cmd": "./setup.sh",
        "hooks": {
            "guard": "DJC_VERIF",
            "enable": "no source hooks: every monitor attaches from the harness (wrapping, sys.monitoring, settings overrides); workers export DJC_VERIF=1 for uniformity",
            "baseline_off_cmd": "cd /repo && env -u DJC_VERIF /venv/bin/python -m pytest -ra -q -p no:cacheprovider --timeout=900 --continue-on-collection-errors --junitxml=/verif/.baseline-off.junit.xml",
            "source_commits": [],
            "add_only": True,
        },
        "engines": [
            {
                "name": "vf",
                "path": "/verif/vf",
                "serves_properties": [c["property_id"] for c in checks],
                "kind_free_text": "runtime monitoring harness: seeded/exhaustive workload generators driving the real django_components code in fresh worker processes, reference-model / differential / invariant monitors, fault and schedule injection, evidence + replay writer",
            }
        ],
        "checks": checks,
        "not_applicable": na,
        "notes": "Runtime monitoring only (no sanitizers: the repository is pure Python, see DESIGN.md §0). Exit 0 held / 1 VIOLATION / 2 INCONCLUSIVE. Known findings: /verif/known_findings.json.",
    }
    with open(os.path.join(ROOT, "MANIFEST.json"), "w") as f:
        json.dump(manifest, f, indent=1)
        f.write("\n")
    print(f"MANIFEST.json: {len(checks)} checks, {len(na)} not_applicable")


if __name__ == "__main__":
    sys.exit(main())
