#!/bin/sh
# tools/try_seed.sh <DIR with patch.diff + demo.py> [check ids...]
# Validates a seeded change WITHOUT touching any worktree: a scratch copy of /repo is made under /tmp,
# the demo is run against the unchanged and the patched copy, the repository's suite is run on the patched
# copy, then the named checks are run against the patch (tools/with_patch.sh).  The scratch copy is removed.
SD="$(realpath "$1")"; shift
[ -f "$SD/patch.diff" ] || { echo "no patch.diff in $SD"; exit 2; }
D="$(mktemp -d /tmp/djc-seedtry-XXXXXX)"; trap 'rm -rf "$D"' EXIT
git -C /repo archive HEAD | tar -x -C "$D"
mkdir -p "$D/_seed"; cp "$SD/demo.py" "$D/_seed/demo.py"
echo "== files changed:"; grep '^+++ ' "$SD/patch.diff"
cd "$D" || exit 2
echo "== demo on UNCHANGED copy:"; PYTHONDONTWRITEBYTECODE=1 PYTHONPATH=$D/src timeout 600 /venv/bin/python _seed/demo.py >"$D/without.log" 2>&1; echo "   exit $?"; tail -2 "$D/without.log"
patch -p1 -s < "$SD/patch.diff" || { echo "patch does not apply"; exit 2; }
echo "== demo on PATCHED copy:";  PYTHONDONTWRITEBYTECODE=1 PYTHONPATH=$D/src timeout 600 /venv/bin/python _seed/demo.py >"$D/with.log" 2>&1; echo "   exit $?"; tail -4 "$D/with.log"
echo "== repository suite on PATCHED copy:"; PYTHONDONTWRITEBYTECODE=1 PYTHONPATH=$D/src /venv/bin/python -m pytest -q -p no:cacheprovider --timeout=900 --deselect tests/test_dependency_rendering_e2e.py --deselect tests/test_dependency_manager.py --ignore=tests/e2e 2>&1 | tail -1
cd /verif
for C in "$@"; do
  echo "== check $C quick against the change:"
  tools/with_patch.sh "$SD/patch.diff" ./check "$C" --tier quick --no-evidence 2>&1 | grep -E "^\[|^VIOLATION|^INCONCLUSIVE" | head -4 | cut -c1-220
done
true
