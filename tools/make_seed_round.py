#!/usr/bin/env python3
"""tools/make_seed_round.py <round-number> [ID...]
Prepares one round of seeded-change experiments: for each property a scratch git worktree of /repo HEAD under
/tmp/seed<round>/<ID> and a prompt file /tmp/seed<round>/<ID>.prompt that contains ONLY the property text, the
task, and a site constraint that keeps the change away from the places earlier rounds already used (nothing
from /verif).  A fresh sub-agent is then pointed at the prompt file.  Worktrees are removed by hand afterwards
(git -C /repo worktree remove --force <dir>)."""
import json, subprocess, sys, os

R = sys.argv[1]
ONLY = set(sys.argv[2:])
BASE = f"/tmp/seed{R}"
TMPL = '''You are helping to evaluate how well a verification suite detects regressions. You will inject ONE realistic defect into a scratch copy of an open-source project.

Work ONLY inside the git worktree at {BASE}/{ID} (a checkout of the django-components repository; the Python package is in src/django_components). Run Python as `PYTHONPATH={BASE}/{ID}/src /venv/bin/python` so that your copy is imported. Do NOT read, list or modify anything under /verif or /repo - your work must be independent of them.

PROPERTY ({ID}: {TITLE})
Statement: {STATEMENT}
Scope: {SCOPE}

TASK
Make a small source change (only under src/django_components/) that BREAKS this property while
 (a) the package still imports, and
 (b) the project's existing test-suite still passes. Run it with:
     cd {BASE}/{ID} && PYTHONPATH={BASE}/{ID}/src /venv/bin/python -m pytest -q -p no:cacheprovider --timeout=900 --deselect tests/test_dependency_rendering_e2e.py --deselect tests/test_dependency_manager.py --ignore=tests/e2e
     (514 tests pass on the unchanged tree; the deselected ones need a browser).
The change should look like a plausible refactoring, optimisation or well-meant fix gone wrong - not obvious sabotage - and it should need something SPECIFIC to manifest: a particular interleaving, a fault at a particular point, a multi-step sequence of operations, an unusual input, or two cooperating sites that each look fine alone. Avoid changes that ordinary use would expose at once, and avoid changes that merely crash on import. Prefer a subtle semantic change in the logic the property is about over a cache or memoisation bolted on from outside.
SITE CONSTRAINT (to spread such experiments over the code base): {SITE}

DELIVERABLES in {BASE}/{ID}/_seed/ :
 - patch.diff : output of `git diff -- src` (the change itself)
 - demo.py    : a standalone program, run as `cd {BASE}/{ID} && PYTHONPATH={BASE}/{ID}/src /venv/bin/python _seed/demo.py`, that exits 0 on the UNCHANGED tree and exits non-zero WITH your change, printing what went wrong. It must configure Django itself (see tests/django_test_setup.py for the settings the tests use; call django.setup()).
 - notes.md   : what the change breaks, exactly what is needed for the breakage to manifest, and the pytest summary line you obtained WITH the change applied. While you explore the code, also spend some effort probing the UNCHANGED tree with small experiments for inputs that already violate the property; describe each one you can actually reproduce (with the minimal input and the observed vs. expected result) under a heading "Side observations".
Verify the demo on the unchanged tree too: save `git diff -- src > {BASE}/{ID}/_seed/patch.diff`, undo with `git apply -R`, run, re-apply with `git apply`. Do NOT use `git stash` (the stash is shared with other worktrees of this repository and other people are using it). Leave the change applied in the worktree when you finish. Keep your final answer short: one paragraph saying what you changed and what it needs to manifest, then the side observations as a short list.'''

# Round 6: sites none of rounds 1-5 used (see DESIGN.md section 10 for those).
SITES6 = {
 "C01": "put the change in how fill names are resolved when they are dynamic (`{% fill name=var %}`, slots whose name comes from a loop variable), in the `required` / `component_vars.is_filled` bookkeeping, or in the placeholder stitching of deferred child output in perfutil/component.py (component_post_render) - not in the default-slot flag logic, not in the outer_context snapshot and not in components/dynamic.py.",
 "C02": "put the change in top-level spreads and `prefix:key=value` aggregation (resolve_params in util/template_tag.py, process_aggregate_kwargs in expression.py), in tag_formatter.py (how the component name / self-closing slash are split off), or in how TagValue filters are applied - not in list/dict literal resolution and not in nested-template-string detection.",
 "C03": "put the change in what happens to the CALLER's Context around a render (push/pop/update balance in component.py, render_context, Context.update / flatten), or in snapshot_context in util/context.py (what is copied by reference vs by value for the deferred render) - not in slots.py, not in _copy_forloop_context and not in whether the get_context_data layer is pushed.",
 "C04": "put the change in Media inheritance reaching the final tags, _postprocess_media_tags (URL extraction / de-duplication of <script src> and <link href>), the fragment-mode JSON declaration, or hash_comp_cls / comp_hash_mapping look-up - not in (url, media) keys and not in inline JS/CSS substitution.",
 "C05": "put the change in provide.py (ProvideNode.render, set_provided_context_var, get_injected_context_var, the NamedTuple that carries the kwargs) or in the lifetime / reference counting of providers across DEFERRED component rendering (unregister_provide_reference, managed_provide_cache) - not in register_provide_reference, not in slots.py and not in the for-loop layer copy.",
 "C06": "put the change in the clean-up of provide registries on the error path (managed_provide_cache), in Component._metadata_stack / render_context pushes, or in how errors raised inside slot functions, filters or nested fills unwind through component_post_render - not in post_render_callbacks.pop and not in component_error_message's argument handling.",
 "C07": "put the change in perfutil/provide.py (the global reference sets as seen by two threads), in cache.py (lazy creation of the template / media caches), in comp_hash_mapping / hash registration in dependencies.py, or in gen_id - not in LRUCache.get, not in cached_template and not in the media write-back.",
 "C08": "put the change in the str / bytes / SafeString round-trip of render_dependencies, in the middleware's content-type / streaming guard, in how the {% component_js_dependencies %} / {% component_css_dependencies %} placeholders are located and replaced when they occur several times or in unusual order, or in fragment-mode appending - not in the </body> / </head> search, not in byte offsets and not in the marker-comment regex.",
 "C09": "put the change in the resume arithmetic of parse_template (index_start / position of the tokens after a re-parsed tag), in how comment `{# #}` / variable `{{ }}` tokens or trailing text are handled next to a quoted block tag, or in token `contents` stripping - not in escape handling inside strings, not in the string regex and not in line counting.",
 "C10": "put the change in the patched compile_nodelist (origin / debug information / error annotation, what happens when the template does NOT use components), in apps.py (multiline tag_re), or in what state the Context / render_context is left in after a render of a stock template - not in block-context copying and not in the nested flag of Template.render.",
 "C11": "put the change in the fallback signature path (_validate_params_with_signature and when it is chosen over the fast path), in keyword-only parameters / *args / **kwargs handling of the fast path, or in node.py wrapper_render (separating non-identifier keywords, stripping self/context) - not in positional-only handling, not in the defaults loop and not in a cache of parameter layouts.",
 "C12": "put the change so that some unusual but short input raises an exception type OTHER than TemplateSyntaxError (IndexError, KeyError, AttributeError, ValueError ...) or makes serialize -> re-parse disagree (TagValueStruct.serialize, TagAttr.serialize, spreads, filters with arguments, nested containers); expression.py is allowed - do not introduce regex backtracking blow-ups (already covered).",
 "C13": "put the change in HtmlAttrsNode.render's merge order (defaults / attrs / extra keywords), append_attributes, the None / False / True handling, or in _normalize_slot_fills (escape_slots_content, slot functions, the `escaped` flag, SafeString detection) - not in a cache, not in merge_repeated_kwargs and not in the </script> end-tag guard.",
 "C14": "put the change in what happens when a component's root is itself a component (both ids on the shared roots), in deep nesting (no recursion limit), in text-only / comment-only roots, or in which id Component.id reports during the render - not in sibling placeholders sharing an attribute list and not in clearing child_component_attrs.",
 "C15": "put the change in clear(), in registering one component class under several names or several registries sharing one Library, in what happens when the tag formatter (and so the tag name) differs between registrations, or in the exact conditions for AlreadyRegistered / NotRegistered - not in the protected-tag checks of round-trip register/unregister and not in `_tags` entry creation.",
 "C16": "put the change in _get_comp_cls_attr (the template/template_file, js/js_file, css/css_file pair rule along the MRO), the mutual-exclusion check in ComponentMedia.__post_init__, or in how Media.extend = [list of classes] / Media declared as dict vs list vs str is normalised - not in the queued/cycle guard and not in skipping selected bases.",
 "C17": "put the change in list() (the storage listing filter, prefixes, ignore patterns) so that it disagrees with find(), in regex-pattern (re.Pattern) entries versus suffix strings, in find(..., all=True / find_all=True), or in the defaults in app_settings.py - not in safe_join, not in which path string is matched and not in os.path.splitext.",
 "C18": "put the change in LRUCache.set on an existing key, in the head / tail pointer updates of _remove / _add_to_front for caches of size 1 or 2, in how maxsize 0 / None is treated, or in cache.py's lazy creation of the template cache from settings - not in the recency update of get and not in cached_template's key.",
 "C19": "put the change in urls.py / cached_script_view (content type, 404 / 405 handling, which cache key is read), in gen_cache_key / get_script_url, or in the fragment-mode list of URLs to load - not in an 'already written' record, not in is_nonempty_str and not in parsing the hash out of the script name.",
 "C20": "put the change in get_component_dirs (COMPONENTS.dirs entries given as tuples (prefix, path), STATICFILES_DIRS fallback, app_dirs, de-duplication of nested / repeated directories), or in _filepath_to_python_module for files found in APP directories versus project directories - not in the glob call and not in with_suffix on __init__.py.",
}

# Round 7: history-dependent changes - the breakage must need an EARLIER operation in the same process (an earlier render of
# another page, a class whose data was resolved before, a cache state, a registration order) and must not be one of the
# mechanisms of rounds 1-6.
HIST = "The breakage must be HISTORY-DEPENDENT: a fresh process that performs only the failing operation must still behave correctly; it has to take an earlier operation in the same process (an earlier render of another page or component, data of a class resolved earlier, a cache filled or cleared earlier, an earlier failed render, an earlier registration) to make the later operation go wrong. The demo must show both: the operation alone is fine, the same operation after the history is wrong. Do NOT use any of these already-explored mechanisms: "
SITES7 = {
 "C04": HIST + "de-duplication keyed by (url, media); inline JS/CSS used as a regex replacement template; a Media merge helper that extends a base class's cached list in place.",
 "C05": HIST + "register_provide_reference keeping the outermost provider; inject keys forwarded into fills only when the key name is missing; re-using the live {% for %} layer dict in the isolated copy; {% provide %} writing into the current top layer instead of pushing one.",
 "C06": HIST + "popping post_render_callbacks too early; dropping exception arguments; an error handler that skips its registry clean-up for an exception object it has seen before.",
 "C10": HIST + "not pushing the outer render-context layer for fills; a fresh BlockContext per component; returning an empty BlockContext uncopied; consuming the nested flag of the patched Template.render; setting context.template_name in every nested render.",
 "C13": HIST + "an untyped lru_cache around the attribute formatter; merging repeated keywords into a pre-escaped SafeString; an end-tag guard that misses </script/>; truthiness instead of presence in append_attributes.",
 "C14": HIST + "sibling placeholders sharing one attribute list; clearing child_component_attrs globally when a root render ends; a greedy comment-stripping fast path.",
 "C16": HIST + "a 'queued' cycle guard that skips an unresolved base; skipping a selected base when a more specific one exists; *_file lookups falling through the pair rule.",
 "C19": HIST + "a per-process 'already written' record that answers instead of the cache; truthiness instead of is_nonempty_str on either side; classifying the second URL part as an input hash by its shape.",
}
SITES = SITES7 if R == "7" else SITES6

os.makedirs(BASE, exist_ok=True)
n = 0
for l in open("/verif/properties.jsonl"):
    d = json.loads(l); i = d["id"]
    if i not in SITES or (ONLY and i not in ONLY):
        continue
    open(f"{BASE}/{i}.prompt", "w").write(TMPL.format(BASE=BASE, ID=i, TITLE=d["title"], STATEMENT=d["statement"],
                                                        SCOPE=d["quantifier"]["text"], SITE=SITES[i]))
    if not os.path.isdir(f"{BASE}/{i}"):
        subprocess.run(["git", "-C", "/repo", "worktree", "add", "-q", "--detach", f"{BASE}/{i}", "HEAD"], check=True)
    n += 1
print(n, "prompts / worktrees under", BASE)
