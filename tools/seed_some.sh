#!/bin/sh
# tools/seed_some.sh <seed-id>... - like seed_matrix.sh for the named seeded changes; appends to seeded/RESULTS.part.tsv
cd "$(dirname "$0")/.." || exit 2
OUT=seeded/RESULTS.part.tsv
for s in "$@"; do
  d=seeded/$s; p=$(echo "$s" | cut -c1-3)
  r=$(tools/with_patch.sh "$d/patch.diff" ./check "$p" --tier quick --no-evidence 2>&1 | grep -E "^\[$p\]|FAILED|INCONCLUSIVE" | head -2 | tr '\n' ' ')
  v=$(echo "$r" | grep -o 'violations=[0-9]*' | head -1)
  [ -z "$v" ] && v="no-result: $(echo "$r" | cut -c1-80)"
  printf '%s\t%s\t%s\n' "$s" "$p" "$v" | tee -a "$OUT"
done
rm -f replay/*.json
