#!/bin/sh
# tools/run_some.sh <tier> <seed> <ID>... - like run_all.sh for the named checks
cd "$(dirname "$0")/.." || exit 2
TIER="$1"; SEED="$2"; shift 2; RC=0
for id in "$@"; do
  OUT="$(./check "$id" --tier "$TIER" --seed "$SEED" 2>&1)"; R=$?
  echo "$OUT" | grep -E "^\[|^VIOLATION|^INCONCLUSIVE|^KNOWN-FINDING" | cut -c1-170
  [ $R -ne 0 ] && { echo "  -> exit $R"; RC=1; }
done
exit $RC
