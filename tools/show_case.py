#!/usr/bin/env python3
"""tools/show_case.py <replay.json> - compact view of an E1 replay case: templates as source, detail, reference output."""
import json, sys
sys.path.insert(0, "/verif")
from vf import boot, e1run
from vf.gen import program as pg
d = json.load(open(sys.argv[1]))
case = d["case"]
print("class:", d.get("class"), " case keys:", {k: v for k, v in case.items() if k != "program"})
prog = case.get("program")
if prog:
    reg = lambda n: n
    print("PAGE:", pg.ser_nodes(prog["page"], reg), " ctx:", prog.get("page_ctx"))
    for c, spec in prog["classes"].items():
        print(f"  {c}: data={spec.get('data')} inject={spec.get('inject')} :: {pg.ser_nodes(spec['template'], reg)}")
    for mode in ("django", "isolated"):
        r = e1run.reference(prog, mode)
        print(" reference", mode, r[:2])
print("DETAIL:", json.dumps(d.get("detail"), indent=1)[:3000])
