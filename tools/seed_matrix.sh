#!/bin/sh
# tools/seed_matrix.sh - runs the quick tier of the property's check against every seeded change (scratch copies only) and
# writes seeded/RESULTS.tsv: seed, property, violations reported (or the reason there is no number).
cd "$(dirname "$0")/.." || exit 2
OUT=seeded/RESULTS.tsv
printf 'seed\tproperty\tquick_tier_seed0\n' > "$OUT"
for d in seeded/*/; do
  s=$(basename "$d"); p=$(echo "$s" | cut -c1-3)
  r=$(tools/with_patch.sh "$d/patch.diff" ./check "$p" --tier quick --no-evidence 2>&1 | grep -E "^\[$p\]|FAILED|INCONCLUSIVE" | head -2 | tr '\n' ' ')
  v=$(echo "$r" | grep -o 'violations=[0-9]*' | head -1)
  [ -z "$v" ] && v="no-result: $(echo "$r" | cut -c1-80)"
  echo "$r" | grep -q INCONCLUSIVE && v="$v (+inconclusive)"
  printf '%s\t%s\t%s\n' "$s" "$p" "$v" >> "$OUT"
done
rm -f replay/*.json
