#!/bin/sh
# tools/run_all.sh [tier] [seed]  - runs every registered check, prints one line each
cd "$(dirname "$0")/.." || exit 2
TIER="${1:-quick}"; SEED="${2:-0}"; RC=0
for id in $(python3 -c "import json;print(' '.join(c['property_id'] for c in json.load(open('MANIFEST.json'))['checks']))"); do
  OUT="$(./check "$id" --tier "$TIER" --seed "$SEED" 2>&1)"; R=$?
  echo "$OUT" | grep -E "^\[|^VIOLATION|^INCONCLUSIVE|^KNOWN-FINDING" | cut -c1-170
  [ $R -ne 0 ] && { echo "  -> exit $R"; RC=1; }
done
exit $RC
