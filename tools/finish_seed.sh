#!/bin/sh
# tools/finish_seed.sh <round> <ID> <new-id> "<caught text>" "<breaks>" "<needs>" ["<strengthened>"]
# Keeps a confirmed seeded change (after tools/try_seed.sh) and removes its scratch worktree.
R="$1"; ID="$2"; NEW="$3"; CAUGHT="$4"; SD="/tmp/seed$R/$ID/_seed"
printf '%s\n' "$5" > "$SD/breaks.txt"; printf '%s\n' "$6" > "$SD/needs.txt"
cd "$(dirname "$0")/.." || exit 2
if [ -n "$7" ]; then python3 tools/keep_seed.py "$NEW" "$SD" "$CAUGHT" --strengthened "$7"; else python3 tools/keep_seed.py "$NEW" "$SD" "$CAUGHT"; fi
git -C /repo worktree remove --force "/tmp/seed$R/$ID" && rm -f "/tmp/seed$R/$ID.prompt"
