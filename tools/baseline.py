#!/usr/bin/env python3
"""Runs the repository's pinned test command (guard off) and compares with BASELINE.json.stable_pass.
usage: tools/baseline.py [repo_dir]   (default /repo)"""
import json, os, subprocess, sys, tempfile
import xml.etree.ElementTree as ET

repo = sys.argv[1] if len(sys.argv) > 1 else "/repo"
base = json.load(open("/root/.vp/BASELINE.json"))
want = set(base["stable_pass"])
fd, junit = tempfile.mkstemp(suffix=".xml", prefix="djc-baseline-")
os.close(fd)
env = {k: v for k, v in os.environ.items() if k != "DJC_VERIF"}
env["PYTHONDONTWRITEBYTECODE"] = "1"
if repo != "/repo":
    env["PYTHONPATH"] = os.path.join(repo, "src")
cmd = ["/venv/bin/python", "-m", "pytest", "-ra", "-q", "-p", "no:cacheprovider", "--timeout=900", "--continue-on-collection-errors", f"--junitxml={junit}"]
cp = subprocess.run(cmd, cwd=repo, env=env, stdout=subprocess.PIPE, stderr=subprocess.STDOUT)
passed = set()
for tc in ET.parse(junit).getroot().iter("testcase"):
    if not any(ch.tag in ("failure", "error", "skipped") for ch in tc):
        passed.add(f"{tc.get('classname')}::{tc.get('name')}")
os.unlink(junit)
missing = sorted(want - passed)
print(cp.stdout.decode()[-600:])
print(f"baseline: {len(want)} stable tests, {len(want & passed)} pass, {len(missing)} missing")
for m in missing[:30]:
    print("  MISSING", m)
sys.exit(1 if missing else 0)
