#!/usr/bin/env python3
"""tools/revert_fixes.py [commit-prefix ...] - for every `fix:` commit of /repo: revert it on a scratch copy of the
current tree (tools/with_patch.sh) and run the quick tier of the property named by its `fixed:` line in
known_findings.json.  A repaired defect must be reported again when the repair is taken out.  Prints one line per
commit: property, result (violations / NOT-DETECTED / revert-does-not-apply)."""
import json, re, subprocess, sys, tempfile, os

fixed = json.load(open("/verif/known_findings.json"))["fixed"]
prop_of = {}
for line in fixed:
    m = re.match(r"fixed: property=(C\d\d) (\w+) ", line)
    if m:
        prop_of.setdefault(m.group(2), []).append(m.group(1))
log = subprocess.check_output(["git", "-C", "/repo", "log", "--format=%h %s", "--grep=^fix:"]).decode().splitlines()
want = sys.argv[1:]
for entry in log:
    h, subj = entry.split(" ", 1)
    if want and not any(h.startswith(w) for w in want):
        continue
    props = None
    for k, v in prop_of.items():
        if h.startswith(k) or k.startswith(h):
            props = v
    if not props:
        print(f"{h} ?? no fixed: line  {subj[:70]}")
        continue
    diff = subprocess.check_output(["git", "-C", "/repo", "diff", h, h + "~1", "--", "src"])
    with tempfile.NamedTemporaryFile("wb", suffix=".diff", delete=False) as f:
        f.write(diff)
        path = f.name
    try:
        for prop in sorted(set(props)):
            cp = subprocess.run(["tools/with_patch.sh", path, "./check", prop, "--tier", "quick", "--no-evidence"], cwd="/verif", capture_output=True, text=True, timeout=3000)
            out = cp.stdout + cp.stderr
            m = re.search(r"violations=(\d+)", out)
            if "FAILED" in out or "patch: ****" in out or "can't find file" in out or (m is None and "hunk" in out.lower()):
                res = "revert-does-not-apply"
            elif m is None:
                res = "no-result: " + out[-120:].replace("\n", " ")
            else:
                n = int(m.group(1))
                res = f"violations={n}" if n else "NOT-DETECTED"
                if "INCONCLUSIVE" in out:
                    res += " (+inconclusive)"
            print(f"{h} {prop} {res:28s} {subj[5:75]}", flush=True)
    finally:
        os.unlink(path)
